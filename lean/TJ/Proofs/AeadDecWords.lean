/-
  TJ.Proofs.AeadDecWords — the message word loop of tinyjambu_*_aead_decrypt as a whole.
-/
import TJ.Proofs.AeadDecLoop
namespace TJ.MiniC.Hoare
open TJ TJ.MiniC TJ.MiniC.PermC TJ.Gen.MiniC

/-- state and plaintext after the full words of the ciphertext body -/
def decWordsS (P : Perm) (pk : Nat) : W4 → Bytes → W4
  | s, b0 :: b1 :: b2 :: b3 :: rest =>
    decWordsS P pk (absorbW (P pk (addDomain s 0x50)) (load32 b0 b1 b2 b3 ^^^ (P pk (addDomain s 0x50)).c)) rest
  | s, _ => s
def decWordsC (P : Perm) (pk : Nat) : W4 → Bytes → Bytes
  | s, b0 :: b1 :: b2 :: b3 :: rest =>
    store32 (load32 b0 b1 b2 b3 ^^^ (P pk (addDomain s 0x50)).c) ++
      decWordsC P pk (absorbW (P pk (addDomain s 0x50)) (load32 b0 b1 b2 b3 ^^^ (P pk (addDomain s 0x50)).c)) rest
  | _, _ => []

theorem decBody_split (P : Perm) (pk : Nat) : ∀ (s : W4) (l : Bytes),
    decBody P pk s l = ((decBody P pk (decWordsS P pk s l) (absRest l)).1, decWordsC P pk s l ++ (decBody P pk (decWordsS P pk s l) (absRest l)).2)
  | s, [] => rfl
  | s, [_] => rfl
  | s, [_, _] => rfl
  | s, [_, _, _] => rfl
  | s, b0 :: b1 :: b2 :: b3 :: rest => by
    rw [decBody, decWordsS, decWordsC, absRest]
    have ih := decBody_split P pk (absorbW (P pk (addDomain s 0x50)) (load32 b0 b1 b2 b3 ^^^ (P pk (addDomain s 0x50)).c)) rest
    simp only [squeeze, absorbW] at *
    rw [ih]
    simp [List.append_assoc]

theorem decBody_length (P : Perm) (pk : Nat) : ∀ (s : W4) (l : Bytes), (decBody P pk s l).2.length = l.length
  | s, [] => rfl
  | s, [_] => rfl
  | s, [_, _] => rfl
  | s, [_, _, _] => rfl
  | s, b0 :: b1 :: b2 :: b3 :: rest => by
    rw [decBody]
    simp only [List.length_append, List.length_cons, store32, List.length_nil]
    rw [decBody_length P pk _ rest]; omega

theorem dec_exit {g : AGeo} (eg : EGeo g) {M : Array Block} {v : Nat} (pk : Nat) {kp : List (Nat × Nat)} {env : Env} {st : St} {s : W4} {kws : List UInt32} {pt rest tag2 : Bytes}
    (di : DI g eg M (v + 49) kp env st s kws pt rest tag2) (hl : rest.length < 4) :
    RunsTo g.prog (decLoopBody g.pidx pk v) env st (fun sig e' s' => sig = .brk ∧ DI g eg M (v + 49) kp e' s' s kws pt rest tag2) := by
  unfold decLoopBody
  refine runs_ite_false ?_ (runs_brk ⟨rfl, di.ai.frame di.ai.esz rfl rfl rfl, di.e0, di.e2, di.e3, di.keep, di.hm, di.ho, di.oth0, di.room⟩)
  have : ¬ 4 ≤ rest.length := by omega
  simp only [evalE, di.e3, reduceCtorEq, if_false, castVal_u64_i32_lit 4 (by decide), BinOp.needsPub2, BinOp.needsPub1, Bool.false_and, Bool.or_self,
    Bool.false_eq_true, binVal, Ty.signed, ge_iff_le, this, decide_false, b2n, Lab.join_pub_pub]

/-- **the word loop of `tinyjambu_*_aead_decrypt`** -/
theorem dec_loop {g : AGeo} (eg : EGeo g) {v : Nat} (hv : 13 ≤ v) (pk : Nat) (hpk : pk < 256) {kp : List (Nat × Nat)} (hkp : KeepOk kp) {kws : List UInt32} {tag2 : Bytes} :
    ∀ (l : Bytes) (M : Array Block) (env : Env) (st : St) (s : W4) (pt : Bytes), DI g eg M (v + 49) kp env st s kws pt l tag2 →
    RunsTo g.prog (.loop (decLoopBody g.pidx pk v)) env st (fun sig e' s' => sig = .normal ∧
      ∃ M', DI g eg M' (v + 49) kp e' s' (decWordsS (g.P kws) pk s l) kws (pt ++ decWordsC (g.P kws) pk s l) (absRest l) tag2)
  | b0 :: b1 :: b2 :: b3 :: rest, M, env, st, s, pt, di => by
    refine runs_loop_continue (Q := fun e' s' => ∃ M', DI g eg M' (v + 49) kp e' s' (absorbW (g.P kws pk (addDomain s 0x50)) (load32 b0 b1 b2 b3 ^^^ (g.P kws pk (addDomain s 0x50)).c)) kws
        (pt ++ store32 (load32 b0 b1 b2 b3 ^^^ (g.P kws pk (addDomain s 0x50)).c)) rest tag2) (dec_iter eg hv pk hpk hkp b0 b1 b2 b3 rest di) ?_
    intro e s' ⟨M', di'⟩
    rw [decWordsS, decWordsC, absRest, ← List.append_assoc]
    exact dec_loop eg hv pk hpk hkp rest M' e s' _ _ di'
  | [], M, env, st, s, pt, di => runs_loop_break ((dec_exit eg pk di (by simp)).weaken fun _ _ _ ⟨h, a⟩ => ⟨h, rfl, M, by simpa [decWordsS, decWordsC, absRest] using a⟩)
  | [_], M, env, st, s, pt, di => runs_loop_break ((dec_exit eg pk di (by simp)).weaken fun _ _ _ ⟨h, a⟩ => ⟨h, rfl, M, by simpa [decWordsS, decWordsC, absRest] using a⟩)
  | [_, _], M, env, st, s, pt, di => runs_loop_break ((dec_exit eg pk di (by simp)).weaken fun _ _ _ ⟨h, a⟩ => ⟨h, rfl, M, by simpa [decWordsS, decWordsC, absRest] using a⟩)
  | [_, _, _], M, env, st, s, pt, di => runs_loop_break ((dec_exit eg pk di (by simp)).weaken fun _ _ _ ⟨h, a⟩ => ⟨h, rfl, M, by simpa [decWordsS, decWordsC, absRest] using a⟩)

end TJ.MiniC.Hoare
