import TJ.Proofs.PbkdfLast
namespace TJ.MiniC.Hoare
open TJ TJ.MiniC TJ.MiniC.PermC TJ.Gen.MiniC

theorem pbLoop_zero (pw salt : Bytes) (c b : Nat) : pbkdf2Loop pw salt c 0 b = [] := by rw [pbkdf2Loop]; simp
theorem pbLoop_full (pw salt : Bytes) (c n b : Nat) (h : 32 ≤ n) :
    pbkdf2Loop pw salt c n b = pbkdf2F pw salt c b.toUInt32 ++ pbkdf2Loop pw salt c (n - 32) (b + 1) := by
  rw [pbkdf2Loop]; simp only [show ¬ n = 0 from by omega, if_false, ge_iff_le, h, if_true]
theorem pbLoop_last (pw salt : Bytes) (c n b : Nat) (h0 : 0 < n) (h : n < 32) : pbkdf2Loop pw salt c n b = (pbkdf2F pw salt c b.toUInt32).take n := by
  rw [pbkdf2Loop]; simp only [show ¬ n = 0 from by omega, if_false, ge_iff_le, show ¬ 32 ≤ n from by omega]

theorem pbLoopBody_eq : pbLoopBody = .ite (.bin .gt .u64 (.var 1) (.cast .u64 .i32 (.lit 0)))
    (.seq (.ite (.bin .ge .u64 (.var 1) (.cast .u64 .i32 (.lit 32))) pbFull pbLast) (.assign 9 (.bin .add .u64 (.var 9) (.lit 1)))) .brk := rfl

theorem pb_iter_full (G : POG) (mem0 : Array Block) (acc : Bytes) (r bk : Nat) (hr : 32 ≤ r) {env : Env} {s : St} (x : PO G mem0 acc r bk bk env s) :
    RunsTo prog pbLoopBody env s (fun sig e' s' => sig = .normal ∧ PO G mem0 (acc ++ pbkdf2F G.pw G.salt G.count bk.toUInt32) (r - 32) (bk + 1) (bk + 1) e' s') := by
  rw [pbLoopBody_eq]
  refine runs_ite_true 1 ?_ (by decide) ?_
  · simp only [evalE, x.e1, reduceCtorEq, if_false, castVal_u64_i32_lit 0 (by decide), BinOp.needsPub2, BinOp.needsPub1, Bool.false_and, Bool.or_self,
      Bool.false_eq_true, binVal, Ty.signed, gt_iff_lt, show 0 < r from by omega, decide_true, b2n, if_true, Lab.join_pub_pub]
  refine runs_seq (Q := fun e' s' => PO G mem0 (acc ++ pbkdf2F G.pw G.salt G.count bk.toUInt32) (r - 32) (bk + 1) bk e' s') ?_ ?_
  · refine runs_ite_true 1 ?_ (by decide) ?_
    · simp only [evalE, x.e1, reduceCtorEq, if_false, castVal_u64_i32_lit 32 (by decide), BinOp.needsPub2, BinOp.needsPub1, Bool.false_and, Bool.or_self,
        Bool.false_eq_true, binVal, Ty.signed, ge_iff_le, hr, decide_true, b2n, if_true, Lab.join_pub_pub]
    exact pb_full G mem0 acc r bk hr (env := env) (s := { s with leak := .br true :: .br true :: s.leak })
      ⟨x.esz, x.e0, x.e1, x.e2, x.e3, x.e4, x.e5, x.e6, x.e7, x.e8, x.e9, x.e10, x.hn, x.hbk, x.ent, x.msz, x.hS, x.hU, x.hT, x.hO, x.hP, x.hSl, x.oth⟩
  intro e1 s1 x1
  have hb64 : bk + 1 < 18446744073709551616 := by
    have h1 := x.hbk; have h2 := x.hn; have h3 := G.hin; have h4 := G.hltO; rw [ptrBase_val] at h4; omega
  refine runs_assign (bk + 1, .pub) (by
    simp only [evalE, x1.e9, reduceCtorEq, if_false, BinOp.needsPub2, BinOp.needsPub1, Bool.false_and, Bool.or_self, Bool.false_eq_true, binVal, Ty.modulus, Lab.join_pub_pub,
      Nat.mod_eq_of_lt hb64]) ?_
  exact ⟨rfl, by rw [size_setVar]; exact x1.esz, by rw [get_set_ne _ _ _ _ (by decide)]; exact x1.e0, by rw [get_set_ne _ _ _ _ (by decide)]; exact x1.e1,
    by rw [get_set_ne _ _ _ _ (by decide)]; exact x1.e2, by rw [get_set_ne _ _ _ _ (by decide)]; exact x1.e3, by rw [get_set_ne _ _ _ _ (by decide)]; exact x1.e4,
    by rw [get_set_ne _ _ _ _ (by decide)]; exact x1.e5, by rw [get_set_ne _ _ _ _ (by decide)]; exact x1.e6, by rw [get_set_ne _ _ _ _ (by decide)]; exact x1.e7,
    by rw [get_set_ne _ _ _ _ (by decide)]; exact x1.e8, get_set_eq _ _ _ (by rw [x1.esz]; decide), by rw [get_set_ne _ _ _ _ (by decide)]; exact x1.e10,
    x1.hn, x1.hbk, x1.ent, x1.msz, x1.hS, x1.hU, x1.hT, x1.hO, x1.hP, x1.hSl, x1.oth⟩

theorem pb_iter_last (G : POG) (mem0 : Array Block) (acc : Bytes) (r bk : Nat) (hr0 : 0 < r) (hr : r < 32) {env : Env} {s : St} (x : PO G mem0 acc r bk bk env s) :
    RunsTo prog pbLoopBody env s (fun sig e' s' => sig = .brk ∧ POF G mem0 (acc ++ (pbkdf2F G.pw G.salt G.count bk.toUInt32).take r) e' s') := by
  rw [pbLoopBody_eq]
  refine runs_ite_true 1 ?_ (by decide) ?_
  · simp only [evalE, x.e1, reduceCtorEq, if_false, castVal_u64_i32_lit 0 (by decide), BinOp.needsPub2, BinOp.needsPub1, Bool.false_and, Bool.or_self,
      Bool.false_eq_true, binVal, Ty.signed, gt_iff_lt, hr0, decide_true, b2n, if_true, Lab.join_pub_pub]
  refine runs_seq_abort (runs_ite_false ?_ ?_)
  · simp only [evalE, x.e1, reduceCtorEq, if_false, castVal_u64_i32_lit 32 (by decide), BinOp.needsPub2, BinOp.needsPub1, Bool.false_and, Bool.or_self,
      Bool.false_eq_true, binVal, Ty.signed, ge_iff_le, show ¬ 32 ≤ r from by omega, decide_false, b2n, Lab.join_pub_pub]
  refine (pb_last G mem0 acc r bk hr0 hr (env := env) (s := { s with leak := .br false :: .br true :: s.leak })
    ⟨x.esz, x.e0, x.e1, x.e2, x.e3, x.e4, x.e5, x.e6, x.e7, x.e8, x.e9, x.e10, x.hn, x.hbk, x.ent, x.msz, x.hS, x.hU, x.hT, x.hO, x.hP, x.hSl, x.oth⟩).weaken ?_
  intro sig e s' ⟨h1, h2⟩
  exact ⟨by rw [h1]; exact Sig.noConfusion, h1, h2⟩

theorem pb_exit (G : POG) (mem0 : Array Block) (acc : Bytes) (bk : Nat) {env : Env} {s : St} (x : PO G mem0 acc 0 bk bk env s) :
    RunsTo prog pbLoopBody env s (fun sig e' s' => sig = .brk ∧ POF G mem0 acc e' s') := by
  rw [pbLoopBody_eq]
  refine runs_ite_false ?_ (runs_brk ⟨rfl, x.e8, x.ent, x.msz, x.hU, x.hO, x.oth⟩)
  simp only [evalE, x.e1, reduceCtorEq, if_false, castVal_u64_i32_lit 0 (by decide), BinOp.needsPub2, BinOp.needsPub1, Bool.false_and, Bool.or_self,
    Bool.false_eq_true, binVal, Ty.signed, gt_iff_lt, Nat.lt_irrefl, decide_false, b2n, Lab.join_pub_pub]

/-- the block loop of `tinyjambu_pbkdf2` writes the model's `pbkdf2Loop` -/
theorem pb_loop (G : POG) (mem0 : Array Block) :
    ∀ (k : Nat) (acc : Bytes) (r bk : Nat), r / 32 = k → ∀ (env : Env) (s : St), PO G mem0 acc r bk bk env s →
    RunsTo prog (.loop pbLoopBody) env s (fun sig e' s' => sig = .normal ∧ POF G mem0 (acc ++ pbkdf2Loop G.pw G.salt G.count r bk) e' s')
  | 0, acc, r, bk, hk, env, s, x => by
    have hr : r < 32 := by
      by_cases h : r < 32
      · exact h
      · have : 1 ≤ r / 32 := (Nat.le_div_iff_mul_le (by decide)).mpr (by omega)
        omega
    by_cases h0 : r = 0
    · subst h0
      rw [pbLoop_zero, List.append_nil]
      exact runs_loop_break ((pb_exit G mem0 acc bk x).weaken fun _ _ _ ⟨h, b⟩ => ⟨h, rfl, b⟩)
    · rw [pbLoop_last _ _ _ _ _ (by omega) hr]
      exact runs_loop_break ((pb_iter_last G mem0 acc r bk (by omega) hr x).weaken fun _ _ _ ⟨h, b⟩ => ⟨h, rfl, b⟩)
  | k + 1, acc, r, bk, hk, env, s, x => by
    have hr : 32 ≤ r := by
      by_cases h : 32 ≤ r
      · exact h
      · rw [Nat.div_eq_of_lt (by omega)] at hk; omega
    rw [pbLoop_full _ _ _ _ _ hr, ← List.append_assoc]
    refine runs_loop_continue (pb_iter_full G mem0 acc r bk hr x) ?_
    intro e s' x'
    exact pb_loop G mem0 k _ (r - 32) (bk + 1) (by omega) e s' x'

end TJ.MiniC.Hoare
