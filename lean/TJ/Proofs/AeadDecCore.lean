/-
  TJ.Proofs.AeadDecCore — rules for calls with a result, and the data-word idioms of tinyjambu_*_aead_decrypt (ciphertext word xor
  keystream word, masked tails).
-/
import TJ.Proofs.AeadDecStmt
namespace TJ.MiniC.Hoare
open TJ TJ.MiniC TJ.MiniC.PermC TJ.Gen.MiniC

theorem runs_call_some {prog : Program} {f x : Nat} {args : List Expr} {env : Env} {st : St} {P : Sig → Env → St → Prop}
    (fd : FunDecl) (vs : List LVal) (hprog : prog[f]? = some fd) (hargs : evalArgs env args = .ok vs) (hlen : vs.length = fd.nparams)
    (hb : RunsTo prog fd.body (enterFun fd vs st.mem).1 { st with mem := (enterFun fd vs st.mem).2 }
      (fun sig _ s => ∃ v, sig = .ret (some v) ∧ P .normal (setVar env x v) { s with mem := s.mem.extract 0 st.mem.size })) :
    RunsTo prog (.call (some x) f args) env st P := by
  obtain ⟨n, sig, e, s, hx, v, hs, hp⟩ := hb
  subst hs
  refine ⟨n + 1, .normal, setVar env x v, _, ?_, hp⟩
  rw [exec]
  simp only [hargs, hprog, hlen, ne_eq, not_true_eq_false, if_false]
  rw [hx]
  simp only [leaveFun, assignDst, Sig.retVal]

theorem runs_ret_some {prog : Program} {e : Expr} {env : Env} {st : St} {P : Sig → Env → St → Prop} (v : LVal)
    (hv : evalE env e = .ok v) (h : P (.ret (some v)) env st) : RunsTo prog (.ret (some e)) env st P :=
  ⟨1, .ret (some v), env, st, by rw [exec, hv], h⟩

theorem binVal_band_u32 (a b : UInt32) : binVal .band .u32 a.toNat b.toNat = some (a &&& b).toNat := by
  simp only [binVal, UInt32.toNat_and]

/-- `y_1 = data[o_1]; …; x = state->s[2]; w = E(y_1, …, x)` -/
theorem load_data_sq {g : AGeo} {M : Array Block} (dg : DGeo g M) {nv : Nat} {env : Env} {st : St} {s : W4} {kws : List UInt32} {sv : Nat} (ai : AI g M nv env st s kws sv)
    (off : Nat) (dat : Bytes) (hd : BytesV dg.XD off dat) {dv : Nat} (he1 : env[dv]? = some (mkPtr dg.bd (dg.based + off), .pub))
    (x w : Nat) (loads : List (Nat × Nat)) (E : Expr) (c : UInt32)
    (hx : x ≠ sv ∧ x ≠ dv ∧ x < nv ∧ x ∉ loads.map Prod.fst) (hw : w ≠ sv ∧ w < nv) (hl0 : loads ≠ [])
    (hall : ∀ yo ∈ loads, yo.1 ≠ sv ∧ yo.1 ≠ dv ∧ yo.1 < nv ∧ yo.2 < dat.length) (hnd : (loads.map Prod.fst).Nodup)
    (hE : ∀ e' : Env, (∀ yo ∈ loads, EnvHas e' yo.1 (dat.getD yo.2 0).toNat) → EnvHas e' x s.c.toNat → EvalD e' E c.toNat)
    {Q : Sig → Env → St → Prop}
    (hQ : ∀ e' s', e'.size = nv → (∀ y, y ≠ x → y ≠ w → y ∉ loads.map Prod.fst → e'[y]? = env[y]?) → EnvHas e' w c.toNat → AI g M nv e' s' s kws sv → Q .normal e' s') :
    RunsTo g.prog (seqs (loadsOf loads dv ++ [.load x .u32 (addrS 2 sv), .assign w E])) env st Q := by
  have hes := ai.esz; have hlt := g.hlt
  obtain ⟨XD', hmd, hXDs, hd'⟩ := data_block ai dg.bd dg.hne dg.XD dg.based off dat dg.h0 hd
  obtain ⟨X, hm, hXs, hws⟩ := ai.obj
  have hwc : WV X 2 s.c := hws.2 2 s.c rfl
  obtain ⟨l, hrd, hl⟩ := hwc.read
  refine runs_seqs_append (Q := fun e' s' => e'.size = nv ∧ s'.mem = st.mem ∧ s'.ent = st.ent ∧
      (∀ z, z ∉ loads.map Prod.fst → e'[z]? = env[z]?) ∧ (∀ yo ∈ loads, EnvHas e' yo.1 (dat.getD yo.2 0).toNat)) _ (by simp) _
      (by cases loads with | nil => exact absurd rfl hl0 | cons a b => simp [loadsOf]) _ _ ?_ ?_
  · refine (runs_loads dg.bd dg.based off XD' dat dg.hbd30 (by rw [hXDs]; exact dg.hlt) hd' loads _ st hl0 he1 hmd
      (fun yo hyo => by have := hall yo hyo; rw [hes]; exact ⟨this.2.1, this.2.2.1, this.2.2.2⟩) hnd).weaken ?_
    intro sig e' s' ⟨h1, h2, h3, h4, h5, h6⟩
    exact ⟨h1, by rw [h2]; exact hes, h3, h4, h5, h6⟩
  · intro e1 s1 ⟨hsz, hmm, hent, hfr, hhas⟩
    have hsvn : sv ∉ loads.map Prod.fst := fun h => by obtain ⟨yo, hyo, hy0⟩ := List.mem_map.mp h; exact (hall yo hyo).1 hy0
    have ai1 : AI g M nv e1 s1 s kws sv := ai.frame hsz (hfr sv hsvn) hmm hent
    have hm1 : s1.mem[g.bs]? = some ⟨X, g.baseS⟩ := by rw [hmm]; exact hm
    show RunsTo g.prog (.seq (.load x .u32 (addrS 2 sv)) (.assign w E)) e1 s1 Q
    refine runs_seq (Q := fun e2 s2 => e2 = setVar e1 x (s.c.toNat, l) ∧ s2 = { s1 with leak := Ev.rd (mkPtr g.bs (g.baseS + 4 * 2)) 4 :: s1.leak }) ?_ ?_
    · exact runs_load (mkPtr g.bs (g.baseS + 4 * 2)) g.bs (4 * 2) 4 (s.c.toNat, l) rfl (evalE_addrS g 2 (by decide) ai1.e0)
        (resolve_word hm1 (4 * 2) (by have := g.hal; omega) (by omega) (by omega)) (by rw [blockBytes_of hm1]; exact hrd) ⟨rfl, rfl, rfl⟩
    · intro e2 s2 ⟨he2, hs2⟩; rw [he2, hs2]
      have fr2 : ∀ y, y ≠ x → (setVar e1 x (s.c.toNat, l))[y]? = e1[y]? := fun y hy => get_set_ne _ _ _ _ (fun e => hy e.symm)
      have hhas2 : ∀ yo ∈ loads, EnvHas (setVar e1 x (s.c.toNat, l)) yo.1 (dat.getD yo.2 0).toNat := fun yo hyo =>
        (hhas yo hyo).frame (fr2 yo.1 (fun e => hx.2.2.2 (List.mem_map.mpr ⟨yo, hyo, e⟩)))
      obtain ⟨lr, hev, hlr⟩ := hE _ hhas2 ⟨l, get_set_eq _ _ _ (by omega), hl⟩
      refine runs_assign _ hev ?_
      refine hQ _ _ (by simp only [size_setVar]; exact hsz) (fun y h1 h2 h3 => by
          rw [get_set_ne _ _ _ _ (fun e => h2 e.symm), fr2 y h1]; exact hfr y h3)
        ⟨lr, get_set_eq _ _ _ (by simp only [size_setVar]; omega), hlr⟩
        (ai1.frame (by simp only [size_setVar]; exact hsz) (by rw [get_set_ne _ _ _ _ hw.1, fr2 sv (fun e => hx.1 e.symm)]) rfl rfl)

/-- `x = state->s[2]; w = (w ^ x) & mask` -/
theorem squeeze_xor_mask {g : AGeo} {M : Array Block} {nv : Nat} {env : Env} {st : St} {s : W4} {kws : List UInt32} {sv : Nat} (ai : AI g M nv env st s kws sv)
    (x w : Nat) (d mask : UInt32) (hx : x ≠ sv ∧ x < nv) (hw : w ≠ sv ∧ w < nv) (hxw : x ≠ w) (hd : EnvHas env w d.toNat)
    {Q : Sig → Env → St → Prop}
    (hQ : ∀ e' s', e'.size = nv → (∀ y, y ≠ x → y ≠ w → e'[y]? = env[y]?) → EnvHas e' w ((d ^^^ s.c) &&& mask).toNat → AI g M nv e' s' s kws sv → Q .normal e' s') :
    RunsTo g.prog (seqs [.load x .u32 (addrS 2 sv), .assign w (.bin .band .u32 (.bin .bxor .u32 (.var w) (.var x)) (.lit mask.toNat))]) env st Q := by
  obtain ⟨X, hm, hXs, hws⟩ := ai.obj
  have hes := ai.esz; have hlt := g.hlt
  have hwc : WV X 2 s.c := hws.2 2 s.c rfl
  obtain ⟨l, hrd, hl⟩ := hwc.read
  simp only [seqs]
  refine runs_seq (Q := fun e s' => e = setVar env x (s.c.toNat, l) ∧ s' = { st with leak := Ev.rd (mkPtr g.bs (g.baseS + 4 * 2)) 4 :: st.leak }) ?_ ?_
  · exact runs_load (mkPtr g.bs (g.baseS + 4 * 2)) g.bs (4 * 2) 4 (s.c.toNat, l) rfl (evalE_addrS g 2 (by decide) ai.e0)
      (resolve_word hm (4 * 2) (by have := g.hal; omega) (by omega) (by omega)) (by rw [blockBytes_of hm]; exact hrd) ⟨rfl, rfl, rfl⟩
  · intro e s' ⟨he, hs⟩; rw [he, hs]
    have hxh : EnvHas (setVar env x (s.c.toNat, l)) x s.c.toNat := ⟨l, get_set_eq _ _ _ (by omega), hl⟩
    have hwh : EnvHas (setVar env x (s.c.toNat, l)) w d.toNat := hd.frame (get_set_ne _ _ _ _ hxw)
    have h1 := (EvalD.var hwh).bitop (EvalD.var hxh) .bxor .u32 (d ^^^ s.c).toNat ⟨rfl, rfl⟩ (binVal_bxor_u32 d s.c)
    obtain ⟨lr, hev, hlr⟩ := h1.bitop (EvalD.lit _ mask.toNat) .band .u32 ((d ^^^ s.c) &&& mask).toNat ⟨rfl, rfl⟩ (binVal_band_u32 _ mask)
    refine runs_assign _ hev ?_
    refine hQ _ _ (by simp only [size_setVar]; exact hes) (fun y h1 h2 => by rw [get_set_ne _ _ _ _ (fun e => h2 e.symm), get_set_ne _ _ _ _ (fun e => h1 e.symm)])
      ⟨lr, get_set_eq _ _ _ (by simp only [size_setVar]; omega), hlr⟩
      (ai.frame (by simp only [size_setVar]; exact hes) (by rw [get_set_ne _ _ _ _ hw.1, get_set_ne _ _ _ _ hx.1]) rfl rfl)

end TJ.MiniC.Hoare
