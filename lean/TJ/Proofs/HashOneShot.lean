import TJ.Proofs.HashInit
namespace TJ.MiniC.Hoare
open TJ TJ.MiniC TJ.MiniC.PermC TJ.Gen.MiniC

theorem prog_update : prog[idx_tinyjambu_hash_update]? = some f_tinyjambu_hash_update := by
  simp only [prog, idx_tinyjambu_hash_update, List.getElem?_cons_succ, List.getElem?_cons_zero]
theorem prog_compress : prog[idx_tinyjambu_hash_compress]? = some f_tinyjambu_hash_compress := by
  simp only [prog, idx_tinyjambu_hash_compress, List.getElem?_cons_succ, List.getElem?_cons_zero]
theorem prog_p256 : prog[idx_tinyjambu_permutation_256]? = some f_tinyjambu_permutation_256 := by
  simp only [prog, idx_tinyjambu_permutation_256, List.getElem?_cons_succ, List.getElem?_cons_zero]

theorem enter_hash (po pi n : Nat) (mem : Array Block) :
    (enterFun f_tinyjambu_hash [(po, .pub), (pi, .pub), (n, .pub)] mem).2 = mem.push { bytes := Array.replicate 56 (0, .undef), base := 0 } ∧
    (enterFun f_tinyjambu_hash [(po, .pub), (pi, .pub), (n, .pub)] mem).1 = #[(po, .pub), (pi, .pub), (n, .pub), (mkPtr mem.size 0, .pub)] :=
  ⟨rfl, rfl⟩

theorem hash_body_eq : f_tinyjambu_hash.body =
    seqs [.call none idx_tinyjambu_hash_init [.var 3], .call none idx_tinyjambu_hash_update [.var 3, .var 1, .var 2],
          .call none idx_tinyjambu_hash_finalize [.var 3, .var 0], .call none idx_tinyjambu_hash_free [.var 3]] := rfl

/-- **the regenerated one-shot `tinyjambu_hash(out, in, inlen)`**: the 32 bytes at `out` are the model's `hash data`; every other byte of
    memory keeps its value; the local state object is wiped and released. -/
theorem hash_call (env : Env) (st : St) (eo ei el : Expr) (bo bi : Nat) (XO XI : Array LByte) (baseo basei oo off : Nat) (data : Bytes)
    (heo : evalE env eo = .ok (mkPtr bo (baseo + oo), .pub)) (hei : evalE env ei = .ok (mkPtr bi (basei + off), .pub))
    (hel : evalE env el = .ok (data.length, .pub))
    (hO : st.mem[bo]? = some ⟨XO, baseo⟩) (hI : st.mem[bi]? = some ⟨XI, basei⟩)
    (hltO : baseo + XO.size < ptrBase) (hltI : basei + XI.size < ptrBase) (hinO : oo + 32 ≤ XO.size)
    (hsz : st.mem.size + 3 < 2 ^ 30)
    (hdata : ∀ k b, data[k]? = some b → ∃ l, XI[off + k]? = some (b, l) ∧ l ≠ Lab.undef) (inb : off + data.length ≤ XI.size) :
    RunsTo prog (.call none idx_tinyjambu_hash [eo, ei, el]) env st (fun sig e s => sig = .normal ∧ e = env ∧ s.ent = st.ent ∧
      s.mem.size = st.mem.size ∧
      (∃ blkO, s.mem[bo]? = some blkO ∧ blkO.base = baseo ∧ blkO.bytes.size = XO.size ∧
        (∀ q b, (hash data)[q]? = some b → ∃ l, blkO.bytes[oo + q]? = some (b, l) ∧ l ≠ Lab.undef) ∧
        (∀ q, (q < oo ∨ oo + 32 ≤ q) → ORel VEq blkO.bytes[q]? XO[q]?)) ∧
      (∀ j, j ≠ bo → ORel BlockEqV s.mem[j]? st.mem[j]?)) := by
  have hbo : bo < st.mem.size := by
    by_cases hb : bo < st.mem.size
    · exact hb
    · rw [Array.getElem?_eq_none (by omega)] at hO; cases hO
  have hbi : bi < st.mem.size := by
    by_cases hb : bi < st.mem.size
    · exact hb
    · rw [Array.getElem?_eq_none (by omega)] at hI; cases hI
  let n := st.mem.size
  obtain ⟨em, ee⟩ := enter_hash (mkPtr bo (baseo + oo)) (mkPtr bi (basei + off)) data.length st.mem
  refine runs_call_none f_tinyjambu_hash [(mkPtr bo (baseo + oo), .pub), (mkPtr bi (basei + off), .pub), (data.length, .pub)] prog_hash
    (by simp only [evalArgs, heo, hei, hel]) rfl ?_
  rw [hash_body_eq, em, ee]
  simp only [seqs]
  let B : Block := { bytes := Array.replicate 56 (0, .undef), base := 0 }
  let E : Env := #[(mkPtr bo (baseo + oo), .pub), (mkPtr bi (basei + off), .pub), (data.length, .pub), (mkPtr n 0, .pub)]
  let st1 : St := { st with mem := st.mem.push B }
  have e_0 : E[0]? = some (mkPtr bo (baseo + oo), Lab.pub) := rfl
  have e_1 : E[1]? = some (mkPtr bi (basei + off), Lab.pub) := rfl
  have e_2 : E[2]? = some (data.length, Lab.pub) := rfl
  have e_3 : E[3]? = some (mkPtr n 0, Lab.pub) := rfl
  have ev3 : ∀ e : Env, e[3]? = some (mkPtr n 0, Lab.pub) → evalE e (.var 3) = .ok (mkPtr n (0 + 0), .pub) := by
    intro e h; simp only [evalE, h, reduceCtorEq, if_false]
  have hm1n : st1.mem[n]? = some ⟨Array.replicate 56 (0, .undef), 0⟩ := by
    show (st.mem.push B)[st.mem.size]? = _; rw [Array.getElem?_push]; simp only [if_true]; rfl
  have hm1j : ∀ j, j ≠ n → st1.mem[j]? = st.mem[j]? := by
    intro j hj
    show (st.mem.push B)[j]? = _
    rw [Array.getElem?_push]; simp only [show ¬ j = st.mem.size from hj, if_false]
  have hs1 : st1.mem.size = n + 1 := by show (st.mem.push B).size = _; rw [Array.size_push]
  -- init
  refine runs_seq (Q := fun e s => e = E ∧ s.ent = st.ent ∧ s.mem.size = n + 1 ∧ (∀ j, j ≠ n → s.mem[j]? = st.mem[j]?) ∧
      ∃ X', s.mem[n]? = some ⟨X', 0⟩ ∧ X'.size = 56 ∧ HObjV X' HState.fresh) ?_ ?_
  · refine (init_call prog idx_tinyjambu_hash_init prog_init E st1 (.var 3) n 0 (Array.replicate 56 (0, .undef)) (ev3 E e_3) hm1n (by simp) (by decide)
      (by simp [ptrBase]) (by omega) { (default : HState) with tail := zeros 4 }).weaken ?_
    intro sig e s ⟨h1, h2, h3, h4, h5, X', h6, h7, h8⟩
    exact ⟨h1, h2, h3, by rw [h4, hs1], fun j hj => by rw [h5 j hj]; exact hm1j j hj, X', h6, by rw [h7]; simp, h8⟩
  · intro e s ⟨he, hent, hmsz, hoth, X1, hmn, hX1s, ho1⟩
    rw [he]
    -- update
    have hI1 : s.mem[bi]? = some ⟨XI, basei⟩ := by rw [hoth bi (by omega)]; exact hI
    refine runs_seq (Q := fun e' s' => e'.size = 4 ∧ e'[0]? = some (mkPtr bo (baseo + oo), .pub) ∧ e'[3]? = some (mkPtr n 0, .pub) ∧ s'.ent = st.ent ∧
        s'.mem.size = n + 1 ∧ OthV n s'.mem s.mem ∧
        ∃ blk', s'.mem[n]? = some blk' ∧ blk'.base = 0 ∧ blk'.bytes.size = 56 ∧ HObjV blk'.bytes (HState.fresh.update data)) ?_ ?_
    · refine (update_callV prog idx_tinyjambu_hash_update prog_update prog_compress prog_p256 E s (.var 3) (.var 1) (.var 2) n bi X1 XI 0 basei off
        HState.fresh data (ev3 E e_3) (by simp only [evalE, e_1, reduceCtorEq, if_false]) (by simp only [evalE, e_2, reduceCtorEq, if_false])
        hmn hI1 (by omega) ho1 (by decide) (by rw [hX1s]; simp [ptrBase]) hltI (by omega) (by omega) (by omega) hdata inb).weaken ?_
      intro sig e' s' ⟨h1, h2, h3, h4, h5, blk', h6, h7, h8, h9⟩
      exact ⟨h1, h2.size_eq, envLe_pub h2 0 _ e_0, envLe_pub h2 3 _ e_3, by rw [h3, hent], by rw [h4, hmsz], h5, blk', h6, h7, by rw [h8, hX1s], h9⟩
    · intro e2 s2 ⟨he2s, he2_0, he2_3, hent2, hmsz2, hoth2, blk2, hm2n, hb2, hs2, ho2⟩
      -- finalize
      have hO2 : ORel BlockEqV s2.mem[bo]? s.mem[bo]? := hoth2 bo (by omega)
      rw [hoth bo (by omega), hO] at hO2
      cases hO2' : s2.mem[bo]? with
      | none => rw [hO2'] at hO2; exact hO2.elim
      | some blkO2 =>
        rw [hO2'] at hO2
        have hbase2 : blkO2.base = baseo := hO2.1
        have hsz2 : blkO2.bytes.size = XO.size := (ARel.size_eq hO2.2)
        have hO2'' : s2.mem[bo]? = some ⟨blkO2.bytes, baseo⟩ := by rw [hO2', ← hbase2]
        have hm2n' : s2.mem[n]? = some ⟨blk2.bytes, 0⟩ := by rw [hm2n, ← hb2]
        refine runs_seq (Q := fun e' s' => e' = e2 ∧ s'.ent = st.ent ∧ s'.mem.size = n + 1 ∧
            (∃ blkS, s'.mem[n]? = some blkS ∧ blkS.base = 0 ∧ blkS.bytes.size = 56) ∧
            (∃ blkO, s'.mem[bo]? = some blkO ∧ blkO.base = baseo ∧ blkO.bytes.size = XO.size ∧
              (∀ q b, (hash data)[q]? = some b → ∃ l, blkO.bytes[oo + q]? = some (b, l) ∧ l ≠ Lab.undef) ∧
              (∀ q, (q < oo ∨ oo + 32 ≤ q) → ORel VLe blkO.bytes[q]? blkO2.bytes[q]?)) ∧
            (∀ j, j ≠ n → j ≠ bo → ORel BlockLe s'.mem[j]? s2.mem[j]?)) ?_ ?_
        · refine (finalize_call prog idx_tinyjambu_hash_finalize prog_finalize prog_compress prog_p256 e2 s2 (.var 3) (.var 0) n bo blk2.bytes blkO2.bytes 0 baseo oo
            (HState.fresh.update data) (ev3 e2 he2_3) (by simp only [evalE, he2_0, reduceCtorEq, if_false]) hm2n' hO2'' (by omega) ho2 (by decide)
            (by rw [hs2]; simp [ptrBase]) (by rw [hsz2]; exact hltO) (by rw [hsz2]; exact hinO) (by omega) (by omega) (by omega)).weaken ?_
          intro sig e' s' ⟨h1, h2, h3, h4, ⟨blkS, h5, h6, h7, _⟩, ⟨blkO, h8, h9, h10, h11, h12⟩, h13⟩
          exact ⟨h1, h2, by rw [h3, hent2], by rw [h4, hmsz2], ⟨blkS, h5, h6, by rw [h7, hs2]⟩, ⟨blkO, h8, h9, by rw [h10, hsz2], h11, h12⟩, h13⟩
        · intro e3 s3 ⟨he3, hent3, hmsz3, ⟨blkS3, hm3n, hb3, hs3⟩, ⟨blkO3, hm3o, hbo3, hso3, hdig3, hout3⟩, hoth3⟩
          rw [he3]
          -- free, then the local object is released
          refine (free_call e2 s3 (.var 3) n blkS3 (by simp only [evalE, he2_3, reduceCtorEq, if_false]) hm3n hb3 hs3).weaken ?_
          intro sig e4 s4 ⟨_, _, hent4, hm4⟩
          have hlk : ∀ j, j < n → (s4.mem.extract 0 st.mem.size)[j]? = s3.mem[j]? := by
            intro j hj
            rw [Array.getElem?_extract, hm4, size_setBlock', hmsz3]
            have : j < min st.mem.size (n + 1) - 0 := by show j < min n (n + 1) - 0; omega
            simp only [this, if_true, Nat.zero_add]
            rw [getElem?_setBlock', if_neg (by omega)]
          refine ⟨trivial, trivial, by rw [hent4, hent3], ?_, ⟨blkO3, by rw [hlk bo hbo]; exact hm3o, hbo3, hso3, hdig3, fun q hq => ?_⟩, fun j hj => ?_⟩
          · show (s4.mem.extract 0 st.mem.size).size = st.mem.size
            rw [Array.size_extract, hm4, size_setBlock', hmsz3]; show min n (n + 1) - 0 = n; omega
          · exact orel_trans (R := VEq) (fun _ _ _ p q => VEq.trans p q) (orel_map (R := VLe) (S := VEq) (fun _ _ h => VLe.toVEq h) (hout3 q hq)) (hO2.2 q)
          · show ORel BlockEqV (s4.mem.extract 0 st.mem.size)[j]? st.mem[j]?
            by_cases hjn : j < n
            · rw [hlk j hjn]
              have a : ORel BlockEqV s3.mem[j]? s2.mem[j]? := orel_map (R := BlockLe) (S := BlockEqV) (fun _ _ h => BlockLe.toEqV h) (hoth3 j (by omega) hj)
              have b : ORel BlockEqV s2.mem[j]? s.mem[j]? := hoth2 j (by omega)
              rw [hoth j (by omega)] at b
              exact orel_trans (R := BlockEqV) (fun _ _ _ p q => BlockEqV.trans p q) a b
            · rw [Array.getElem?_eq_none (by rw [Array.size_extract, hm4, size_setBlock', hmsz3]; show min n (n + 1) - 0 ≤ j; omega),
                Array.getElem?_eq_none (by show st.mem.size ≤ j; omega)]
              trivial

end TJ.MiniC.Hoare
