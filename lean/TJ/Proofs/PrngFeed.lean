import TJ.Proofs.HashDf
namespace TJ.MiniC.Hoare
open TJ TJ.MiniC TJ.MiniC.PermC TJ.Gen.MiniC

/-- a public little-endian field survives when its bytes keep their values and their labels do not rise -/
theorem readLE_pub_keep (X' X : Array LByte) : ∀ (n off v : Nat), (∀ q, off ≤ q → q < off + n → ORel VLe X'[q]? X[q]?) →
    readLE X off n = some (v, .pub) → readLE X' off n = some (v, .pub)
  | 0, _, _, _, h => by simpa [readLE] using h
  | n + 1, off, v, hk, h => by
    rw [readLE] at h ⊢
    have h0 := hk off (Nat.le_refl _) (by omega)
    cases hx : X[off]? with
    | none => rw [hx] at h; cases h
    | some x =>
      obtain ⟨b, l⟩ := x
      rw [hx] at h h0
      simp only at h
      by_cases hu : l = Lab.undef
      · rw [if_pos hu] at h; cases h
      · rw [if_neg hu] at h
        cases hr : readLE X (off + 1) n with
        | none => rw [hr] at h; cases h
        | some r =>
          obtain ⟨v', l'⟩ := r
          rw [hr] at h
          simp only [Option.some.injEq, Prod.mk.injEq] at h
          have hl : l = .pub ∧ l' = .pub := by cases l <;> cases l' <;> simp [Lab.join] at h ⊢
          cases hx' : X'[off]? with
          | none => rw [hx'] at h0; exact h0.elim
          | some x' =>
            obtain ⟨b', l0⟩ := x'
            rw [hx'] at h0
            have eb : b' = b := h0.1
            have el : l0 = .pub := by have := h0.2; simp only [hl.1] at this; exact Lab.le_pub this
            have ih := readLE_pub_keep X' X n (off + 1) v' (fun q h1 h2 => hk q (by omega) (by omega)) (by rw [hr, hl.2])
            simp only [ih, eb, el, reduceCtorEq, if_false]
            rw [← h.1]; simp [Lab.join]

/-- the PRNG state object: `V`, `C`, the public `reseed_counter` and `reseed_limit` -/
structure PObjV (X : Array LByte) (V C : Bytes) (rc rl : Nat) : Prop where
  sz : 96 ≤ X.size
  v : BytesV X 0 V
  vl : V.length = 32
  c : BytesV X 32 C
  cl : C.length = 32
  hrc : readLE X 64 4 = some (rc, .pub)
  rcb : rc < 4294967296
  hrl : readLE X 68 4 = some (rl, .pub)

theorem prog_prng_feed : prog[idx_tinyjambu_prng_feed]? = some f_tinyjambu_prng_feed := by
  simp only [prog, idx_tinyjambu_prng_feed, List.getElem?_cons_succ, List.getElem?_cons_zero]

def feedBody : Stmt := seqs [.assign 3 (.var 0),
  .call none idx_tinyjambu_hash_df [.var 3, .cast .u8 .i32 (.lit 1), .var 3, .var 1, .var 2],
  .call none idx_tinyjambu_hash_df [.bin .add .u64 (.var 3) (.lit 32), .cast .u8 .i32 (.lit 0), .var 3, .lit 0, .cast .u64 .i32 (.lit 0)],
  seqs [.load 4 .u32 (.bin .add .u64 (.var 3) (.lit 64)),
    .ite (.bin .ne .u32 (.var 4) (.lit 4294967295))
      (seqs [.assign 5 (.bin .add .u64 (.var 3) (.lit 64)), .load 6 .u32 (.var 5), .store .u32 (.var 5) (.bin .add .u32 (.var 6) (.lit 1)), .load 7 .u32 (.var 5)]) .skip]]

theorem feed_body_eq : f_tinyjambu_prng_feed.body = feedBody := rfl


/-- **`tinyjambu_prng_feed(state, data, size)`** on the regenerated term: `V ← Hash_df(0x01 ‖ V ‖ data)`, `C ← Hash_df(0x00 ‖ V)`, the reseed counter
    moves one step towards the limit and saturates at `2^32 - 1`; limit, callback and user data keep their values and public labels. -/
theorem prng_feed_call (env : Env) (st : St) (es ed el : Expr) (bp bi : Nat) (X XI : Array LByte) (baseP basei ioff pd : Nat) (V C data : Bytes) (rc rl : Nat)
    (hes : evalE env es = .ok (mkPtr bp baseP, .pub)) (hed : evalE env ed = .ok (pd, .pub)) (hel : evalE env el = .ok (data.length, .pub))
    (hP : st.mem[bp]? = some ⟨X, baseP⟩) (ho : PObjV X V C rc rl) (hal : baseP % 4 = 0) (hltP : baseP + X.size < ptrBase)
    (hI : data = [] ∨ (st.mem[bi]? = some ⟨XI, basei⟩ ∧ BytesV XI ioff data ∧ pd = mkPtr bi (basei + ioff) ∧ basei + XI.size < ptrBase))
    (hne : bi ≠ bp) (hsz : st.mem.size + 5 < 2 ^ 30) :
    RunsTo prog (.call none idx_tinyjambu_prng_feed [es, ed, el]) env st (fun sig e s => sig = .normal ∧ e = env ∧ s.ent = st.ent ∧ s.mem.size = st.mem.size ∧
      (∃ X', s.mem[bp]? = some ⟨X', baseP⟩ ∧ X'.size = X.size ∧
        PObjV X' (hashDf 1 V data) (hashDf 0 (hashDf 1 V data) []) (if rc = 4294967295 then rc else rc + 1) rl ∧ ∀ q, 68 ≤ q → ORel VLe X'[q]? X[q]?) ∧
      ∀ j, j ≠ bp → ORel (KeepW (fun _ => False) (fun q => j = bi ∧ ioff ≤ q ∧ q < ioff + data.length)) s.mem[j]? st.mem[j]?) := by
  have hbpN := mem_lt hP
  have hXs := ho.sz
  let vs : List LVal := [(mkPtr bp baseP, .pub), (pd, .pub), (data.length, .pub)]
  refine runs_call_none f_tinyjambu_prng_feed vs prog_prng_feed (by simp only [evalArgs, hes, hed, hel]; rfl) rfl ?_
  have hent : enterFun f_tinyjambu_prng_feed vs st.mem = (#[(mkPtr bp baseP, .pub), (pd, .pub), (data.length, .pub), (0, .undef), (0, .undef), (0, .undef), (0, .undef), (0, .undef)], st.mem) := rfl
  rw [feed_body_eq, hent]
  unfold feedBody
  simp only [seqs]
  generalize hE0 : (#[(mkPtr bp baseP, Lab.pub), (pd, Lab.pub), (data.length, Lab.pub), (0, Lab.undef), (0, Lab.undef), (0, Lab.undef), (0, Lab.undef), (0, Lab.undef)] : Env) = E0
  have e0s : E0.size = 8 := by rw [← hE0]; rfl
  refine runs_seq (Q := fun e s => e = setVar E0 3 (mkPtr bp baseP, .pub) ∧ s = { st with mem := st.mem }) (runs_assign _ (by rw [← hE0]; rfl) ⟨rfl, rfl, rfl⟩) ?_
  intro e s ⟨he, hs⟩; rw [he, hs]
  generalize hE1 : setVar E0 3 (mkPtr bp baseP, .pub) = E1
  have e1s : E1.size = 8 := by rw [← hE1, size_setVar]; exact e0s
  have e_1 : E1[1]? = some (pd, .pub) := by rw [← hE1, get_set_ne _ _ _ _ (by decide), ← hE0]; rfl
  have e_2 : E1[2]? = some (data.length, .pub) := by rw [← hE1, get_set_ne _ _ _ _ (by decide), ← hE0]; rfl
  have e_3 : E1[3]? = some (mkPtr bp baseP, .pub) := by rw [← hE1]; exact get_set_eq _ _ _ (by rw [e0s]; decide)
  have ev3 : evalE E1 (.var 3) = .ok (mkPtr bp (baseP + 0), .pub) := by simp only [evalE, e_3, reduceCtorEq, if_false, Nat.add_zero]
  have hp32 : (mkPtr bp baseP + 32) % 18446744073709551616 = mkPtr bp (baseP + 32) := ptr_off bp baseP 32 (by omega) (by omega)
  have hp64 : (mkPtr bp baseP + 64) % 18446744073709551616 = mkPtr bp (baseP + 64) := ptr_off bp baseP 64 (by omega) (by omega)
  -- V = Hash_df(0x01 ‖ V ‖ data)
  refine runs_seq (hash_df_call E1 { st with mem := st.mem } (.var 3) (.cast .u8 .i32 (.lit 1)) (.var 3) (.var 1) (.var 2) bp bp bi X X XI baseP 0 baseP 0 basei ioff pd (1 : UInt8) V data
    ev3 (by simp only [evalE, castVal_u8_i32_1]; rfl) ev3 (by simp only [evalE, e_1, reduceCtorEq, if_false]) (by simp only [evalE, e_2, reduceCtorEq, if_false])
    hP hP ho.v ho.vl hI hltP hltP (by omega) hsz) ?_
  intro e1 s1 ⟨he1, hent1, hsz1, ⟨XO1, hO1, hO1d⟩, K1⟩
  rw [he1]
  have hent1 : s1.ent = st.ent := hent1
  have hsz1 : s1.mem.size = st.mem.size := hsz1
  obtain ⟨Z1, hZ1, hZ1s, kP1⟩ := okeep_block (by have := K1 bp; rw [show ({ st with mem := st.mem } : St).mem[bp]? = some ⟨X, baseP⟩ from hP] at this; exact this)
  have hZO : Z1 = XO1 := by rw [hO1] at hZ1; cases hZ1; rfl
  subst hZO
  generalize hV1 : hashDf 1 V data = V1 at hO1d
  have hV1l : V1.length = 32 := by rw [← hV1]; unfold hashDf hash; exact finalize_length _
  have hC1 : BytesV Z1 32 C := bytesV_keepW kP1 ho.c (fun q h1 _ h => by omega)
  have hfield1 : ∀ q, 64 ≤ q → ORel VLe Z1[q]? X[q]? := fun q hq => (kP1.2.2 q (fun h => by omega)).2 (fun h => by rcases h with h | h; omega; exact hne h.1.symm)
  -- C = Hash_df(0x00 ‖ V)
  refine runs_seq (hash_df_call E1 s1 (.bin .add .u64 (.var 3) (.lit 32)) (.cast .u8 .i32 (.lit 0)) (.var 3) (.lit 0) (.cast .u64 .i32 (.lit 0)) bp bp bi Z1 Z1 XI baseP 32 baseP 0 basei ioff 0
    (0 : UInt8) V1 []
    (by simp only [evalE, e_3, reduceCtorEq, if_false, BinOp.needsPub2, BinOp.needsPub1, Bool.false_and, Bool.or_self, Bool.false_eq_true, binVal, Ty.modulus, Lab.join_pub_pub, hp32])
    (by simp only [evalE, castVal_u8_i32_0]; rfl) ev3 (by simp only [evalE]) (by simp only [evalE, castVal_u64_i32_0]; rfl)
    hO1 hO1 hO1d hV1l (Or.inl rfl) (by rw [hZ1s]; exact hltP) (by rw [hZ1s]; exact hltP) (by rw [hZ1s]; omega) (by rw [hsz1]; exact hsz)) ?_
  intro e2 s2 ⟨he2, hent2, hsz2, ⟨XO2, hO2, hO2d⟩, K2⟩
  rw [he2]
  obtain ⟨Z2, hZ2, hZ2s, kP2⟩ := okeep_block (by have := K2 bp; rw [hO1] at this; exact this)
  have hZO2 : Z2 = XO2 := by rw [hO2] at hZ2; cases hZ2; rfl
  subst hZO2
  generalize hC2 : hashDf 0 V1 [] = C2 at hO2d
  have hC2l : C2.length = 32 := by rw [← hC2]; unfold hashDf hash; exact finalize_length _
  have hV2 : BytesV Z2 0 V1 := bytesV_keepW kP2 hO1d (fun q _ h2 h => by rw [hV1l] at h2; omega)
  have hfield2 : ∀ q, 64 ≤ q → ORel VLe Z2[q]? X[q]? := fun q hq =>
    orel_trans (R := VLe) (fun _ _ _ p r => vle_trans p r) ((kP2.2.2 q (fun h => by omega)).2 (fun h => by rcases h with h | h; omega; exact hne h.1.symm)) (hfield1 q hq)
  have hrc2 : readLE Z2 64 4 = some (rc, .pub) := readLE_pub_keep Z2 X 4 64 rc (fun q h1 _ => hfield2 q h1) ho.hrc
  have hrl2 : readLE Z2 68 4 = some (rl, .pub) := readLE_pub_keep Z2 X 4 68 rl (fun q h1 _ => hfield2 q (by omega)) ho.hrl
  have hZ2sz : Z2.size = X.size := by rw [hZ2s, hZ1s]
  have hoth2 : ∀ j, j ≠ bp → ORel (KeepW (fun _ => False) (fun q => j = bi ∧ ioff ≤ q ∧ q < ioff + data.length)) s2.mem[j]? st.mem[j]? := fun j hj =>
    okeep_mono (okeep_trans (K2 j) (K1 j)) (fun q h => by rcases h with h | h <;> exact hj h.1) (fun q h => by
      rcases h with (h | h) | (h | h)
      · exact (hj h.1).elim
      · simp only [List.length_nil, Nat.add_zero] at h; omega
      · exact (hj h.1).elim
      · exact h)
  have hres : resolve s2.mem (mkPtr bp (baseP + 64)) 4 = .ok (bp, 64) := resolve_word hO2 64 (by omega) (by omega) (by omega)
  have ea64 : ∀ (E : Env), E[3]? = some (mkPtr bp baseP, .pub) → evalE E (.bin .add .u64 (.var 3) (.lit 64)) = .ok (mkPtr bp (baseP + 64), .pub) := fun E h3 => by
    simp only [evalE, h3, reduceCtorEq, if_false, BinOp.needsPub2, BinOp.needsPub1, Bool.false_and, Bool.or_self, Bool.false_eq_true, binVal, Ty.modulus, Lab.join_pub_pub, hp64]
  -- the saturating counter
  refine runs_seq (Q := fun e s => e = setVar E1 4 (rc, .pub) ∧ s.ent = st.ent ∧ s.mem = s2.mem)
    (runs_load (mkPtr bp (baseP + 64)) bp 64 4 (rc, .pub) rfl (ea64 E1 e_3) hres (by rw [blockBytes_of hO2]; exact hrc2) ⟨rfl, rfl, by rw [hent2]; exact hent1, rfl⟩) ?_
  intro e3 s3 ⟨he3, hent3, hm3⟩
  rw [he3]
  have fin : ∀ (s : St) (Xf : Array LByte) (rc' : Nat), s.ent = st.ent → s.mem.size = st.mem.size → s.mem[bp]? = some ⟨Xf, baseP⟩ → (∀ j, j ≠ bp → s.mem[j]? = s2.mem[j]?) →
      Xf.size = Z2.size → (∀ q, (q < 64 ∨ 68 ≤ q) → Xf[q]? = Z2[q]?) → readLE Xf 64 4 = some (rc', .pub) → rc' < 4294967296 →
      (s.ent = st.ent ∧ (s.mem.extract 0 st.mem.size).size = st.mem.size ∧
        (∃ X', (s.mem.extract 0 st.mem.size)[bp]? = some ⟨X', baseP⟩ ∧ X'.size = X.size ∧ PObjV X' V1 C2 rc' rl ∧ ∀ q, 68 ≤ q → ORel VLe X'[q]? X[q]?) ∧
        ∀ j, j ≠ bp → ORel (KeepW (fun _ => False) (fun q => j = bi ∧ ioff ≤ q ∧ q < ioff + data.length)) (s.mem.extract 0 st.mem.size)[j]? st.mem[j]?) := by
    intro s Xf rc' hent hmsz hmp hoth hXfs hXfo hrcf hrcb
    have hext : s.mem.extract 0 st.mem.size = s.mem := by rw [← hmsz]; exact extract_self _
    rw [hext]
    refine ⟨hent, hmsz, ⟨Xf, hmp, by rw [hXfs]; exact hZ2sz, ⟨by rw [hXfs, hZ2sz]; exact hXs, ?_, hV1l, ?_, hC2l, hrcf, hrcb, ?_⟩, fun q hq => by rw [hXfo q (Or.inr hq)]; exact hfield2 q (by omega)⟩,
      fun j hj => by rw [hoth j hj]; exact hoth2 j hj⟩
    · refine ⟨by rw [hXfs]; exact hV2.1, fun k b hk => ?_⟩
      have hk32 : k < 32 := by
        by_cases h : k < 32
        · exact h
        · rw [List.getElem?_eq_none (by omega)] at hk; cases hk
      obtain ⟨l, hx, hl⟩ := hV2.2 k b hk
      exact ⟨l, by rw [hXfo _ (Or.inl (by omega))]; exact hx, hl⟩
    · refine ⟨by rw [hXfs]; exact hO2d.1, fun k b hk => ?_⟩
      have hk32 : k < 32 := by
        by_cases h : k < 32
        · exact h
        · rw [List.getElem?_eq_none (by omega)] at hk; cases hk
      obtain ⟨l, hx, hl⟩ := hO2d.2 k b hk
      exact ⟨l, by rw [hXfo _ (Or.inl (by omega))]; exact hx, hl⟩
    · rw [← hrl2]; exact readLE_congr _ _ 4 68 (fun q h1 _ => hXfo q (Or.inr h1))
  by_cases hsat : rc = 4294967295
  · refine runs_ite_false ?_ (runs_skip ?_)
    · simp only [evalE, get_set_eq _ _ _ (show 4 < E1.size from by omega), reduceCtorEq, if_false, BinOp.needsPub2, BinOp.needsPub1, Bool.false_and, Bool.or_self,
        Bool.false_eq_true, binVal, ne_eq, hsat, not_true_eq_false, decide_false, b2n, Lab.join_pub_pub]
    obtain ⟨a, b, c, d⟩ := fin { s3 with leak := .br false :: s3.leak } Z2 rc hent3 (by show s3.mem.size = _; rw [hm3, hsz2]; exact hsz1) (by show s3.mem[bp]? = _; rw [hm3]; exact hO2)
      (fun j _ => by show s3.mem[j]? = _; rw [hm3]) rfl (fun _ _ => rfl) hrc2 ho.rcb
    rw [if_pos hsat]
    exact ⟨trivial, trivial, a, b, c, d⟩
  · refine runs_ite_true 1 ?_ (by decide) ?_
    · simp only [evalE, get_set_eq _ _ _ (show 4 < E1.size from by omega), reduceCtorEq, if_false, BinOp.needsPub2, BinOp.needsPub1, Bool.false_and, Bool.or_self,
        Bool.false_eq_true, binVal, ne_eq, hsat, not_false_eq_true, decide_true, b2n, if_true, Lab.join_pub_pub]
    have e3_3 : (setVar E1 4 (rc, Lab.pub))[3]? = some (mkPtr bp baseP, .pub) := by rw [get_set_ne _ _ _ _ (by decide)]; exact e_3
    refine runs_seq (Q := fun e s => e = setVar (setVar E1 4 (rc, .pub)) 5 (mkPtr bp (baseP + 64), .pub) ∧ s.ent = st.ent ∧ s.mem = s2.mem)
      (runs_assign _ (ea64 _ e3_3) ⟨rfl, rfl, hent3, hm3⟩) ?_
    intro e4 s4 ⟨he4, hent4, hm4⟩; rw [he4]
    have e4_5 : (setVar (setVar E1 4 (rc, Lab.pub)) 5 (mkPtr bp (baseP + 64), Lab.pub))[5]? = some (mkPtr bp (baseP + 64), .pub) := get_set_eq _ _ _ (by rw [size_setVar, e1s]; decide)
    refine runs_seq (Q := fun e s => e[5]? = some (mkPtr bp (baseP + 64), .pub) ∧ e[6]? = some (rc, .pub) ∧ e.size = 8 ∧ s.ent = st.ent ∧ s.mem = s2.mem)
      (runs_load (mkPtr bp (baseP + 64)) bp 64 4 (rc, .pub) rfl (by simp only [evalE, e4_5, reduceCtorEq, if_false]) (by rw [hm4]; exact hres)
        (by rw [hm4, blockBytes_of hO2]; exact hrc2)
        ⟨rfl, by rw [get_set_ne _ _ _ _ (by decide)]; exact e4_5, get_set_eq _ _ _ (by simp only [size_setVar]; rw [e1s]; decide), by simp only [size_setVar]; exact e1s, hent4, hm4⟩) ?_
    intro e5 s5 ⟨e5_5, e5_6, e5s, hent5, hm5⟩
    have hrc1 : (rc + 1) % 4294967296 = rc + 1 := Nat.mod_eq_of_lt (by have := ho.rcb; omega)
    refine runs_seq (Q := fun e s => e = e5 ∧ s.ent = st.ent ∧ s.mem = setBlock s2.mem bp (writeLE Z2 64 (rc + 1) .pub 4))
      (runs_store (mkPtr bp (baseP + 64)) (rc + 1) bp 64 4 .pub rfl (by simp only [evalE, e5_5, reduceCtorEq, if_false])
        (by simp only [evalE, e5_6, reduceCtorEq, if_false, BinOp.needsPub2, BinOp.needsPub1, Bool.false_and, Bool.or_self, Bool.false_eq_true, binVal, Ty.modulus, Lab.join_pub_pub, hrc1])
        (by rw [hm5]; exact hres) ⟨rfl, rfl, hent5, by rw [hm5, blockBytes_of hO2]⟩) ?_
    intro e6 s6 ⟨he6, hent6, hm6⟩; rw [he6]
    have hS6 : s6.mem[bp]? = some ⟨writeLE Z2 64 (rc + 1) .pub 4, baseP⟩ := by rw [hm6, getElem?_setBlock', if_pos rfl, hO2]; rfl
    have hrd6 : readLE (writeLE Z2 64 (rc + 1) .pub 4) 64 4 = some (rc + 1, .pub) := by
      rw [readLE_writeLE .pub (by decide) 4 Z2 64 (rc + 1) (by omega)]
      congr 2
    refine runs_load (mkPtr bp (baseP + 64)) bp 64 4 (rc + 1, .pub) rfl (by simp only [evalE, e5_5, reduceCtorEq, if_false])
      (resolve_word hS6 64 (by omega) (by rw [size_writeLE]; omega) (by omega)) (by rw [blockBytes_of hS6]; exact hrd6) ?_
    obtain ⟨a, b, c, d⟩ := fin { s6 with leak := .rd (mkPtr bp (baseP + 64)) 4 :: s6.leak } _ (rc + 1) hent6 (by show s6.mem.size = _; rw [hm6, size_setBlock', hsz2]; exact hsz1) hS6
      (fun j hj => by show s6.mem[j]? = _; rw [hm6, getElem?_setBlock', if_neg hj]) (size_writeLE _ _ _ _ _) (fun q hq => getElem?_writeLE_out _ _ _ _ _ _ (by omega)) hrd6
      (by have := ho.rcb; omega)
    rw [if_neg hsat]
    exact ⟨trivial, trivial, a, b, c, d⟩

end TJ.MiniC.Hoare
