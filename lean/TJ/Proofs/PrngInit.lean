import TJ.Proofs.PrngGenCall
namespace TJ.MiniC.Hoare
open TJ TJ.MiniC TJ.MiniC.PermC TJ.Gen.MiniC

theorem prog_prng_init_user : prog[idx_tinyjambu_prng_init_user]? = some f_tinyjambu_prng_init_user := by
  simp only [prog, idx_tinyjambu_prng_init_user, List.getElem?_cons_succ, List.getElem?_cons_zero]

def initBody : Stmt := seqs [.assign 5 (.var 0), .assign 6 (.lit 0),
  seqs [.memset (.var 0) (.lit 0) (.lit 96), .assign 7 (.var 0)],
  .ite (.var 1) (seqs [seqs [.assign 8 (.bin .add .u64 (.var 5) (.lit 72)), .store .u64 (.var 8) (.var 1)], seqs [.assign 9 (.bin .add .u64 (.var 5) (.lit 80)), .store .u64 (.var 9) (.var 2)]])
               (seqs [.assign 10 (.bin .add .u64 (.var 5) (.lit 72)), .store .u64 (.var 10) (.lit (fnBase + 52))]),
  seqs [.load 11 .u64 (.bin .add .u64 (.var 5) (.lit 80)), .load 13 .u64 (.bin .add .u64 (.var 5) (.lit 72)), .calli (some 12) (.var 13) [.var 11, .var 5, .lit 32],
        .ite (.bin .eq .u64 (.var 12) (.lit 32)) (.assign 6 (.lit 1)) .skip],
  .call none idx_tinyjambu_hash_df [.var 5, .cast .u8 .i32 (.lit 255), .var 5, .var 3, .var 4],
  .call none idx_tinyjambu_hash_df [.bin .add .u64 (.var 5) (.lit 32), .cast .u8 .i32 (.lit 0), .var 5, .lit 0, .cast .u64 .i32 (.lit 0)],
  seqs [.assign 14 (.bin .add .u64 (.var 5) (.lit 64)), .store .u32 (.var 14) (.cast .u32 .i32 (.lit 1))],
  seqs [.assign 15 (.bin .add .u64 (.var 5) (.lit 68)), .store .u32 (.var 15) (.cast .u32 .i32 (.lit 32))],
  .ret (some (.var 6))]

theorem init_body_eq : f_tinyjambu_prng_init_user.body = initBody := rfl

theorem labN_pub (n : Nat) : labN .pub n = .pub := by
  induction n with
  | zero => rfl
  | succ n ih => simp [labN, ih, Lab.join]

/-- a 64-bit public field just written -/
theorem readLE_writeLE_u64 (X : Array LByte) (off v : Nat) (hv : v < 18446744073709551616) (h : off + 8 ≤ X.size) : readLE (writeLE X off v .pub 8) off 8 = some (v, .pub) := by
  rw [readLE_writeLE .pub (by decide) 8 X off v h, labN_pub]
  congr 2
  exact Nat.mod_eq_of_lt (by rw [show (256 : Nat) ^ 8 = 18446744073709551616 from by decide]; exact hv)

/-- **the body of `tinyjambu_prng_init_user(state, callback, user_data, custom, custom_len)`** on the regenerated term for a user callback: the object is
    zeroed, the callback fields stored, one delivery of the entropy script lands in `V`, `V ← Hash_df(V ‖ custom)` (no marker), `C ← Hash_df(0x00 ‖ V)`,
    `reseed_counter = 1`, `reseed_limit = 32` blocks; the result is 1 exactly when the callback reported 32 bytes. -/
theorem init_user_body (cbarg cbv udv : Nat) (E0 : Env) (st : St) (bp bi : Nat) (X XI : Array LByte) (baseP basei ioff pc ud : Nat) (custom : Bytes)
    (hsel : (cbarg ≠ 0 ∧ cbv = cbarg ∧ udv = ud) ∨ (cbarg = 0 ∧ cbv = sysCb ∧ udv = 0)) (hk : CbOk cbv)
    (e0s : E0.size = 16) (e0_0 : E0[0]? = some (mkPtr bp baseP, .pub)) (e0_1 : E0[1]? = some (cbarg, .pub)) (e0_2 : E0[2]? = some (ud, .pub))
    (e0_3 : E0[3]? = some (pc, .pub)) (e0_4 : E0[4]? = some (custom.length, .pub))
    (hP : st.mem[bp]? = some ⟨X, baseP⟩) (hXs : 96 ≤ X.size) (hal : baseP % 8 = 0) (hltP : baseP + X.size < ptrBase) (hud : ud < 18446744073709551616)
    (hI : custom = [] ∨ (st.mem[bi]? = some ⟨XI, basei⟩ ∧ BytesV XI ioff custom ∧ pc = mkPtr bi (basei + ioff) ∧ basei + XI.size < ptrBase)) (hne : bi ≠ bp)
    (hsz : st.mem.size + 5 < 2 ^ 30) :
    RunsTo prog initBody E0 st (fun sig e s => sig = .ret (some (if cbRet cbv (st.ent.headD ([], 0)) = 32 then 1 else 0, .pub)) ∧ s.ent = st.ent.tail ∧ s.mem.size = st.mem.size ∧
      (∃ X', s.mem[bp]? = some ⟨X', baseP⟩ ∧ X'.size = X.size ∧
        PObjV X' (hashDf 0xFF (seedOf (st.ent.headD ([], 0)) (zeros 32)) custom) (hashDf 0 (hashDf 0xFF (seedOf (st.ent.headD ([], 0)) (zeros 32)) custom) []) 1 32 ∧ PCb X' udv cbv) ∧
      ∀ j, j ≠ bp → ORel (KeepW (fun _ => False) (fun q => j = bi ∧ ioff ≤ q ∧ q < ioff + custom.length)) s.mem[j]? st.mem[j]?) := by
  have hbpN := mem_lt hP
  generalize hd : st.ent.headD ([], 0) = d
  have hpk : ∀ k, k ≤ 80 → (mkPtr bp baseP + k) % 18446744073709551616 = mkPtr bp (baseP + k) := fun k hk => ptr_off bp baseP k (by omega) (by omega)
  have eadd : ∀ (E : Env) (k : Nat), k ≤ 80 → E[5]? = some (mkPtr bp baseP, .pub) → evalE E (.bin .add .u64 (.var 5) (.lit k)) = .ok (mkPtr bp (baseP + k), .pub) := fun E k hk h5 => by
    simp only [evalE, h5, reduceCtorEq, if_false, BinOp.needsPub2, BinOp.needsPub1, Bool.false_and, Bool.or_self, Bool.false_eq_true, binVal, Ty.modulus, Lab.join_pub_pub, hpk k hk]
  -- environments: variables 5.. are temporaries, 0..4 the parameters
  let EK : Env → Prop := fun e => e.size = 16 ∧ e[0]? = some (mkPtr bp baseP, .pub) ∧ e[1]? = some (cbarg, .pub) ∧ e[2]? = some (ud, .pub) ∧ e[3]? = some (pc, .pub) ∧
    e[4]? = some (custom.length, .pub) ∧ e[5]? = some (mkPtr bp baseP, .pub)
  have ekSet : ∀ (e : Env) (y : Nat) (v : LVal), 6 ≤ y → EK e → EK (setVar e y v) := fun e y v hy u =>
    ⟨by rw [size_setVar]; exact u.1, by rw [get_set_ne _ _ _ _ (by omega)]; exact u.2.1, by rw [get_set_ne _ _ _ _ (by omega)]; exact u.2.2.1, by rw [get_set_ne _ _ _ _ (by omega)]; exact u.2.2.2.1,
     by rw [get_set_ne _ _ _ _ (by omega)]; exact u.2.2.2.2.1, by rw [get_set_ne _ _ _ _ (by omega)]; exact u.2.2.2.2.2.1, by rw [get_set_ne _ _ _ _ (by omega)]; exact u.2.2.2.2.2.2⟩
  unfold initBody
  simp only [seqs]
  refine runs_seq (Q := fun e s => e = setVar E0 5 (mkPtr bp baseP, .pub) ∧ s = st) (runs_assign _ (by simp only [evalE, e0_0, reduceCtorEq, if_false]) ⟨rfl, rfl, rfl⟩) ?_
  intro e s ⟨he, hs⟩; rw [he, hs]
  have ek1 : EK (setVar E0 5 (mkPtr bp baseP, .pub)) := ⟨by rw [size_setVar]; exact e0s, by rw [get_set_ne _ _ _ _ (by decide)]; exact e0_0, by rw [get_set_ne _ _ _ _ (by decide)]; exact e0_1,
    by rw [get_set_ne _ _ _ _ (by decide)]; exact e0_2, by rw [get_set_ne _ _ _ _ (by decide)]; exact e0_3, by rw [get_set_ne _ _ _ _ (by decide)]; exact e0_4, get_set_eq _ _ _ (by rw [e0s]; decide)⟩
  refine runs_seq (Q := fun e s => EK e ∧ e[6]? = some (0, .pub) ∧ s = st) (runs_assign (0, .pub) (by simp only [evalE]) ⟨rfl, ekSet _ _ _ (by decide) ek1, get_set_eq _ _ _ (by rw [ek1.1]; decide), rfl⟩) ?_
  intro e2 s2 ⟨ek2, e2_6, hs2⟩; rw [hs2]
  -- memset(state, 0, 96)
  generalize hX1 : writeBytes X 0 (List.replicate 96 ((0 : UInt8), Lab.pub)) = X1
  have hX1s : X1.size = X.size := by rw [← hX1, size_writeBytes]
  have hX1z : ∀ q, q < 96 → X1[q]? = some (0, .pub) := fun q hq => by
    rw [← hX1, getElem?_writeBytes, if_pos ⟨by omega, by rw [List.length_replicate]; omega, by omega⟩, Nat.sub_zero, List.getElem?_replicate, if_pos hq]
  refine runs_seq (Q := fun e s => EK e ∧ e[6]? = some (0, .pub) ∧ s.ent = st.ent ∧ s.mem = setBlock st.mem bp X1) ?_ ?_
  · refine runs_seq (Q := fun e s => e = e2 ∧ s.ent = st.ent ∧ s.mem = setBlock st.mem bp X1)
      (runs_memset (mkPtr bp (baseP + 0)) 0 96 bp 0 .pub (by simp only [evalE, ek2.2.1, reduceCtorEq, if_false, Nat.add_zero]) (by simp only [evalE]) (by simp only [evalE]) (by decide)
        (resolve_byte hP 0 (by omega) (by omega)) (by rw [blockBytes_of hP]; omega) ⟨rfl, rfl, rfl, by rw [blockBytes_of hP]; show setBlock st.mem bp (writeBytes X 0 _) = _; rw [← hX1]; rfl⟩) ?_
    intro e s ⟨he, h1, h2⟩; rw [he]
    exact runs_assign (mkPtr bp baseP, .pub) (by simp only [evalE, ek2.2.1, reduceCtorEq, if_false]) ⟨rfl, ekSet _ _ _ (by decide) ek2, by rw [get_set_ne _ _ _ _ (by decide)]; exact e2_6, h1, h2⟩
  intro e3 s3 ⟨ek3, e3_6, hent3, hm3⟩
  have hP3 : s3.mem[bp]? = some ⟨X1, baseP⟩ := by rw [hm3, getElem?_setBlock', if_pos rfl, hP]; rfl
  -- callback and user data
  have hcb64 : cbv < 18446744073709551616 := by rcases hk with h | h <;> rw [h] <;> decide
  have hz80 : readLE X1 80 8 = some (0, .pub) := by
    simp only [readLE, hX1z 80 (by decide), hX1z 81 (by decide), hX1z 82 (by decide), hX1z 83 (by decide), hX1z 84 (by decide), hX1z 85 (by decide), hX1z 86 (by decide), hX1z 87 (by decide),
      reduceCtorEq, if_false, Lab.join]
    rfl
  refine runs_seq (Q := fun e s => EK e ∧ e[6]? = some (0, .pub) ∧ s.ent = st.ent ∧ ∃ X2, s.mem = setBlock st.mem bp X2 ∧ X2.size = X.size ∧ (∀ q, q < 72 → X2[q]? = some (0, .pub)) ∧ PCb X2 udv cbv) ?_ ?_
  · have hXc0 : (writeLE X1 72 cbv .pub 8).size = X.size ∧ (∀ q, q < 72 → (writeLE X1 72 cbv .pub 8)[q]? = some (0, .pub)) ∧ readLE (writeLE X1 72 cbv .pub 8) 72 8 = some (cbv, .pub) ∧
        readLE (writeLE X1 72 cbv .pub 8) 80 8 = some (0, .pub) :=
      ⟨by rw [size_writeLE]; exact hX1s, fun q hq => by rw [getElem?_writeLE_out _ _ _ _ _ _ (Or.inl (by omega))]; exact hX1z q (by omega), readLE_writeLE_u64 X1 72 cbv hcb64 (by omega),
       by rw [readLE_writeLE_ne X1 72 80 _ 8 8 .pub (Or.inr (by omega))]; exact hz80⟩
    generalize hXc : writeLE X1 72 cbv .pub 8 = Xc at hXc0
    obtain ⟨hXcs, hXclo, hXccb, hXcud⟩ := hXc0
    rcases hsel with ⟨hnz, hcv, hudv⟩ | ⟨hz0, hcv, hudv⟩
    · -- a callback was supplied: store it and the user data
      subst hcv hudv
      generalize hX2 : writeLE Xc 80 udv .pub 8 = X2
      have hX2s : X2.size = X.size := by rw [← hX2, size_writeLE]; exact hXcs
      have hX2lo : ∀ q, q < 72 → X2[q]? = some (0, .pub) := fun q hq => by
        rw [← hX2, getElem?_writeLE_out _ _ _ _ _ _ (Or.inl (by omega))]; exact hXclo q hq
      have hX2cb : PCb X2 udv cbv := by
        refine ⟨?_, ?_⟩
        · rw [← hX2, readLE_writeLE_ne _ 80 72 _ 8 8 .pub (Or.inl (by omega))]; exact hXccb
        · rw [← hX2]; exact readLE_writeLE_u64 _ 80 udv hud (by omega)
      refine runs_ite_true cbv (by simp only [evalE, ek3.2.2.1, reduceCtorEq, if_false]) hnz ?_
      refine runs_seq (Q := fun e s => EK e ∧ e[6]? = some (0, .pub) ∧ s.ent = st.ent ∧ s.mem = setBlock st.mem bp Xc) ?_ ?_
      · refine runs_seq (Q := fun e s => e = setVar e3 8 (mkPtr bp (baseP + 72), .pub) ∧ s.ent = st.ent ∧ s.mem = s3.mem) (runs_assign _ (eadd e3 72 (by decide) ek3.2.2.2.2.2.2) ⟨rfl, rfl, hent3, rfl⟩) ?_
        intro e s ⟨he, h1, h2⟩; rw [he]
        have ek := ekSet e3 8 (mkPtr bp (baseP + 72), .pub) (by decide) ek3
        refine runs_store (mkPtr bp (baseP + 72)) cbv bp 72 8 .pub rfl (by simp only [evalE, get_set_eq _ _ _ (show 8 < e3.size from by rw [ek3.1]; decide), reduceCtorEq, if_false])
          (by simp only [evalE, ek.2.2.1, reduceCtorEq, if_false]) (by rw [h2]; exact resolve_mkPtr s3.mem bp 72 8 ⟨X1, baseP⟩ hP3 (by show 72 + 8 ≤ X1.size; omega) (by show baseP + 72 < _; omega) (fun _ => by show (baseP + 72) % 8 = 0; omega))
          ⟨rfl, ek, by rw [get_set_ne _ _ _ _ (by decide)]; exact e3_6, h1, by rw [h2, blockBytes_of hP3, hm3, setBlock_setBlock _ _ _ _ _ hP, hXc]⟩
      · intro e4 s4 ⟨ek4, e4_6, hent4, hm4⟩
        have hP4 : s4.mem[bp]? = some ⟨Xc, baseP⟩ := by rw [hm4, getElem?_setBlock', if_pos rfl, hP]; rfl
        refine runs_seq (Q := fun e s => e = setVar e4 9 (mkPtr bp (baseP + 80), .pub) ∧ s.ent = st.ent ∧ s.mem = s4.mem) (runs_assign _ (eadd e4 80 (by decide) ek4.2.2.2.2.2.2) ⟨rfl, rfl, hent4, rfl⟩) ?_
        intro e s ⟨he, h1, h2⟩; rw [he]
        have ek := ekSet e4 9 (mkPtr bp (baseP + 80), .pub) (by decide) ek4
        refine runs_store (mkPtr bp (baseP + 80)) udv bp 80 8 .pub rfl (by simp only [evalE, get_set_eq _ _ _ (show 9 < e4.size from by rw [ek4.1]; decide), reduceCtorEq, if_false])
          (by simp only [evalE, ek.2.2.2.1, reduceCtorEq, if_false]) (by rw [h2]; exact resolve_mkPtr s4.mem bp 80 8 ⟨Xc, baseP⟩ hP4 (by show 80 + 8 ≤ Xc.size; omega) (by show baseP + 80 < _; omega) (fun _ => by show (baseP + 80) % 8 = 0; omega))
          ⟨rfl, ek, by rw [get_set_ne _ _ _ _ (by decide)]; exact e4_6, h1, X2, by rw [h2, blockBytes_of hP4, hm4, setBlock_setBlock _ _ _ _ _ hP, hX2], hX2s, hX2lo, hX2cb⟩
    · -- NULL: install the system source; user data stays zero
      subst hcv hudv
      refine runs_ite_false (by simp only [evalE, ek3.2.2.1, reduceCtorEq, if_false, hz0]) ?_
      refine runs_seq (Q := fun e s => e = setVar e3 10 (mkPtr bp (baseP + 72), .pub) ∧ s.ent = st.ent ∧ s.mem = s3.mem) (runs_assign _ (eadd e3 72 (by decide) ek3.2.2.2.2.2.2) ⟨rfl, rfl, hent3, rfl⟩) ?_
      intro e s ⟨he, h1, h2⟩; rw [he]
      have ek := ekSet e3 10 (mkPtr bp (baseP + 72), .pub) (by decide) ek3
      refine runs_store (mkPtr bp (baseP + 72)) sysCb bp 72 8 .pub rfl (by simp only [evalE, get_set_eq _ _ _ (show 10 < e3.size from by rw [ek3.1]; decide), reduceCtorEq, if_false])
        (by simp only [evalE]; rfl) (by rw [h2]; exact resolve_mkPtr s3.mem bp 72 8 ⟨X1, baseP⟩ hP3 (by show 72 + 8 ≤ X1.size; omega) (by show baseP + 72 < _; omega) (fun _ => by show (baseP + 72) % 8 = 0; omega))
        ⟨rfl, ek, by rw [get_set_ne _ _ _ _ (by decide)]; exact e3_6, h1, Xc, by rw [h2, blockBytes_of hP3, hm3, setBlock_setBlock _ _ _ _ _ hP, hXc], hXcs, hXclo, ⟨hXccb, hXcud⟩⟩
  intro e5 s5 ⟨ek5, e5_6, hent5, X2, hm5, hX2s, hX2lo, hX2cb⟩
  have hP5 : s5.mem[bp]? = some ⟨X2, baseP⟩ := by rw [hm5, getElem?_setBlock', if_pos rfl, hP]; rfl
  -- the callback delivers into V
  generalize hX3 : writeBytes X2 0 ((d.1.take (min d.1.length 32)).map fun x => (x, Lab.sec)) = X3
  have hX3s : X3.size = X.size := by rw [← hX3, size_writeBytes]; exact hX2s
  have hX3hi : ∀ q, 32 ≤ q → X3[q]? = X2[q]? := fun q hq => by
    rw [← hX3, getElem?_writeBytes, if_neg (by simp only [List.length_map, List.length_take]; omega)]
  have hzl : (zeros 32).length = 32 := by simp [zeros]
  have hX3v : BytesV X3 0 (seedOf d (zeros 32)) := by
    refine ⟨by rw [seedOf_length d _ hzl, hX3s]; omega, fun k b hk => ?_⟩
    have hk32 : k < 32 := by
      by_cases h : k < 32
      · exact h
      · rw [List.getElem?_eq_none (by rw [seedOf_length d _ hzl]; omega)] at hk; cases hk
    unfold seedOf at hk
    by_cases hkn : k < min d.1.length 32
    · rw [List.getElem?_append_left (by rw [List.length_take]; omega)] at hk
      refine ⟨.sec, ?_, by decide⟩
      rw [← hX3, getElem?_writeBytes, if_pos ⟨by omega, by simp only [List.length_map, List.length_take]; omega, by rw [hX2s]; omega⟩, show 0 + k - 0 = k from by omega,
        List.getElem?_map, hk]; rfl
    · rw [List.getElem?_append_right (by rw [List.length_take]; omega), List.length_take, List.getElem?_drop] at hk
      have hz : ∀ (i : Nat) (c : UInt8), (zeros 32)[i]? = some c → c = 0 := by
        intro i c h; unfold zeros at h; rw [List.getElem?_replicate] at h; split at h <;> simp_all
      have hb0 : b = 0 := hz _ _ hk
      exact ⟨.pub, by rw [← hX3, getElem?_writeBytes, if_neg (by simp only [List.length_map, List.length_take]; omega), Nat.zero_add, hb0]; exact hX2lo k (by omega), by decide⟩
  refine runs_seq (Q := fun e s => EK e ∧ e[6]? = some (if cbRet cbv d = 32 then 1 else 0, .pub) ∧ s.ent = st.ent.tail ∧ s.mem = setBlock st.mem bp X3) ?_ ?_
  · refine runs_seq (Q := fun e s => EK e ∧ e[6]? = some (0, .pub) ∧ e[11]? = some (udv, .pub) ∧ s.ent = st.ent ∧ s.mem = s5.mem)
      (runs_load (mkPtr bp (baseP + 80)) bp 80 8 (udv, .pub) rfl (eadd e5 80 (by decide) ek5.2.2.2.2.2.2) (resolve_mkPtr s5.mem bp 80 8 ⟨X2, baseP⟩ hP5 (by show 80 + 8 ≤ X2.size; omega) (by show baseP + 80 < _; omega) (fun _ => by show (baseP + 80) % 8 = 0; omega))
        (by rw [blockBytes_of hP5]; exact hX2cb.ud) ⟨rfl, ekSet _ _ _ (by decide) ek5, by rw [get_set_ne _ _ _ _ (by decide)]; exact e5_6, get_set_eq _ _ _ (by rw [ek5.1]; decide), hent5, rfl⟩) ?_
    intro e6 s6 ⟨ek6, e6_6, e6_11, hent6, hm6⟩
    refine runs_seq (Q := fun e s => EK e ∧ e[6]? = some (0, .pub) ∧ e[11]? = some (udv, .pub) ∧ e[13]? = some (cbv, .pub) ∧ s.ent = st.ent ∧ s.mem = s5.mem)
      (runs_load (mkPtr bp (baseP + 72)) bp 72 8 (cbv, .pub) rfl (eadd e6 72 (by decide) ek6.2.2.2.2.2.2) (by rw [hm6]; exact resolve_mkPtr s5.mem bp 72 8 ⟨X2, baseP⟩ hP5 (by show 72 + 8 ≤ X2.size; omega) (by show baseP + 72 < _; omega) (fun _ => by show (baseP + 72) % 8 = 0; omega))
        (by rw [hm6, blockBytes_of hP5]; exact hX2cb.cb) ⟨rfl, ekSet _ _ _ (by decide) ek6, by rw [get_set_ne _ _ _ _ (by decide)]; exact e6_6, by rw [get_set_ne _ _ _ _ (by decide)]; exact e6_11,
          get_set_eq _ _ _ (by rw [ek6.1]; decide), hent6, hm6⟩) ?_
    intro e7 s7 ⟨ek7, e7_6, e7_11, e7_13, hent7, hm7⟩
    have hP7 : s7.mem[bp]? = some ⟨X2, baseP⟩ := by rw [hm7]; exact hP5
    have hhd : s7.ent.headD ([], 0) = d := by rw [hent7]; exact hd
    refine runs_seq (Q := fun e s => e = setVar e7 12 (cbRet cbv d, .pub) ∧ s.ent = st.ent.tail ∧ s.mem = setBlock st.mem bp X3)
      (runs_calli_cb cbv hk (udv, .pub) bp baseP 0 X2 (by simp only [evalE, e7_13, reduceCtorEq, if_false])
        (by simp only [evalArgs, evalE, e7_11, ek7.2.2.2.2.2.2, reduceCtorEq, if_false, Nat.add_zero]) hP7 (by omega) (by rw [hX2s]; exact hltP)
        (fun L => by rw [hhd, hX3]; exact ⟨rfl, rfl, by show s7.ent.tail = _; rw [hent7], by show setBlock s7.mem bp X3 = _; rw [hm7, hm5, setBlock_setBlock _ _ _ _ _ hP]⟩)) ?_
    intro e8 s8 ⟨he8, hent8, hm8⟩; rw [he8]
    have ek8 := ekSet e7 12 (cbRet cbv d, .pub) (by decide) ek7
    by_cases h32 : cbRet cbv d = 32
    · refine runs_ite_true 1 ?_ (by decide) (runs_assign (1, .pub) (by simp only [evalE]) ⟨rfl, ekSet _ _ _ (by decide) ek8, by rw [get_set_eq _ _ _ (by rw [ek8.1]; decide), if_pos h32], hent8, hm8⟩)
      simp only [evalE, get_set_eq _ _ _ (show 12 < e7.size from by rw [ek7.1]; decide), reduceCtorEq, if_false, BinOp.needsPub2, BinOp.needsPub1, Bool.false_and, Bool.or_self,
        Bool.false_eq_true, binVal, h32, decide_true, b2n, if_true, Lab.join_pub_pub]
    · refine runs_ite_false ?_ (runs_skip ⟨rfl, ek8, by rw [get_set_ne _ _ _ _ (by decide), if_neg h32]; exact e7_6, hent8, hm8⟩)
      simp only [evalE, get_set_eq _ _ _ (show 12 < e7.size from by rw [ek7.1]; decide), reduceCtorEq, if_false, BinOp.needsPub2, BinOp.needsPub1, Bool.false_and, Bool.or_self,
        Bool.false_eq_true, binVal, h32, decide_false, b2n, Lab.join_pub_pub]
  intro e9 s9 ⟨ek9, e9_6, hent9, hm9⟩
  have hP9 : s9.mem[bp]? = some ⟨X3, baseP⟩ := by rw [hm9, getElem?_setBlock', if_pos rfl, hP]; rfl
  have hsz9 : s9.mem.size = st.mem.size := by rw [hm9, size_setBlock']
  have hoth9 : ∀ j, j ≠ bp → s9.mem[j]? = st.mem[j]? := fun j hj => by rw [hm9, getElem?_setBlock', if_neg hj]
  have ev5 : evalE e9 (.var 5) = .ok (mkPtr bp (baseP + 0), .pub) := by simp only [evalE, ek9.2.2.2.2.2.2, reduceCtorEq, if_false, Nat.add_zero]
  have hI9 : custom = [] ∨ (s9.mem[bi]? = some ⟨XI, basei⟩ ∧ BytesV XI ioff custom ∧ pc = mkPtr bi (basei + ioff) ∧ basei + XI.size < ptrBase) := by
    rcases hI with h | ⟨h1, h2, h3, h4⟩
    · exact Or.inl h
    · exact Or.inr ⟨by rw [hoth9 bi hne]; exact h1, h2, h3, h4⟩
  generalize hbuf : seedOf d (zeros 32) = buf at hX3v
  have hbufl : buf.length = 32 := by rw [← hbuf]; exact seedOf_length d _ hzl
  -- V = Hash_df(V ‖ custom)
  refine runs_seq (hash_df_call e9 s9 (.var 5) (.cast .u8 .i32 (.lit 255)) (.var 5) (.var 3) (.var 4) bp bp bi X3 X3 XI baseP 0 baseP 0 basei ioff pc (0xFF : UInt8) buf custom
    ev5 (by simp only [evalE, castVal_u8_i32_small 255 (by decide)]; rfl) ev5 (by simp only [evalE, ek9.2.2.2.2.1, reduceCtorEq, if_false]) (by simp only [evalE, ek9.2.2.2.2.2.1, reduceCtorEq, if_false])
    hP9 hP9 hX3v hbufl hI9 (by rw [hX3s]; exact hltP) (by rw [hX3s]; exact hltP) (by rw [hX3s]; omega) (by rw [hsz9]; exact hsz)) ?_
  intro e10 s10 ⟨he10, hent10, hsz10, ⟨XO1, hO1, hO1d⟩, K1⟩
  rw [he10]
  obtain ⟨Z1, hZ1, hZ1s, kP1⟩ := okeep_block (by have := K1 bp; rw [hP9] at this; exact this)
  have hZO : Z1 = XO1 := by rw [hO1] at hZ1; cases hZ1; rfl
  subst hZO
  generalize hV1 : hashDf 0xFF buf custom = V1 at hO1d
  have hV1l : V1.length = 32 := by rw [← hV1]; unfold hashDf hash; exact finalize_length _
  have hfield1 : ∀ q, 64 ≤ q → ORel VLe Z1[q]? X3[q]? := fun q hq => (kP1.2.2 q (fun h => by omega)).2 (fun h => by rcases h with h | h; omega; exact hne h.1.symm)
  -- C = Hash_df(0x00 ‖ V)
  refine runs_seq (hash_df_call e9 s10 (.bin .add .u64 (.var 5) (.lit 32)) (.cast .u8 .i32 (.lit 0)) (.var 5) (.lit 0) (.cast .u64 .i32 (.lit 0)) bp bp bi Z1 Z1 XI baseP 32 baseP 0 basei ioff 0
    (0 : UInt8) V1 [] (eadd e9 32 (by decide) ek9.2.2.2.2.2.2) (by simp only [evalE, castVal_u8_i32_0]; rfl) ev5 (by simp only [evalE]) (by simp only [evalE, castVal_u64_i32_0]; rfl)
    hO1 hO1 hO1d hV1l (Or.inl rfl) (by rw [hZ1s, hX3s]; exact hltP) (by rw [hZ1s, hX3s]; exact hltP) (by rw [hZ1s, hX3s]; omega) (by rw [hsz10, hsz9]; exact hsz)) ?_
  intro e11 s11 ⟨he11, hent11, hsz11, ⟨XO2, hO2, hO2d⟩, K2⟩
  rw [he11]
  obtain ⟨Z2, hZ2, hZ2s, kP2⟩ := okeep_block (by have := K2 bp; rw [hO1] at this; exact this)
  have hZO2 : Z2 = XO2 := by rw [hO2] at hZ2; cases hZ2; rfl
  subst hZO2
  generalize hC2 : hashDf 0 V1 [] = C2 at hO2d
  have hC2l : C2.length = 32 := by rw [← hC2]; unfold hashDf hash; exact finalize_length _
  have hV2 : BytesV Z2 0 V1 := bytesV_keepW kP2 hO1d (fun q _ h2 h => by rw [hV1l] at h2; omega)
  have hfield2 : ∀ q, 64 ≤ q → ORel VLe Z2[q]? X2[q]? := fun q hq => by
    have a := (kP2.2.2 q (fun h => by omega)).2 (fun h => by rcases h with h | h; omega; exact hne h.1.symm)
    have b := hfield1 q hq
    rw [hX3hi q (by omega)] at b
    exact orel_trans (R := VLe) (fun _ _ _ p r => vle_trans p r) a b
  have hZ2sz : Z2.size = X.size := by rw [hZ2s, hZ1s, hX3s]
  have hcb2 : PCb Z2 udv cbv := pcb_vle hX2cb (fun q hq => hfield2 q (by omega))
  -- reseed_counter = 1, reseed_limit = 32
  generalize hX4 : writeLE (writeLE Z2 64 1 .pub 4) 68 32 .pub 4 = X4
  refine runs_seq (Q := fun e s => EK e ∧ e[6]? = some (if cbRet cbv d = 32 then 1 else 0, .pub) ∧ s.ent = st.ent.tail ∧ s.mem = setBlock s11.mem bp (writeLE Z2 64 1 .pub 4)) ?_ ?_
  · refine runs_seq (Q := fun e s => e = setVar e9 14 (mkPtr bp (baseP + 64), .pub) ∧ s = s11) (runs_assign _ (eadd e9 64 (by decide) ek9.2.2.2.2.2.2) ⟨rfl, rfl, rfl⟩) ?_
    intro e s ⟨he, hs⟩; rw [he, hs]
    refine runs_store (mkPtr bp (baseP + 64)) 1 bp 64 4 .pub rfl (by simp only [evalE, get_set_eq _ _ _ (show 14 < e9.size from by rw [ek9.1]; decide), reduceCtorEq, if_false])
      (by simp only [evalE, castVal_u32_i32_1']) (resolve_word hO2 64 (by omega) (by omega) (by omega))
      ⟨rfl, ekSet _ _ _ (by decide) ek9, by rw [get_set_ne _ _ _ _ (by decide)]; exact e9_6, by rw [hent11, hent10]; exact hent9, by rw [blockBytes_of hO2]⟩
  intro e12 s12 ⟨ek12, e12_6, hent12, hm12⟩
  have hP12 : s12.mem[bp]? = some ⟨writeLE Z2 64 1 .pub 4, baseP⟩ := by rw [hm12, getElem?_setBlock', if_pos rfl, hO2]; rfl
  have hc32 : castVal .u32 .i32 32 = 32 := by decide
  refine runs_seq (Q := fun e s => e[6]? = some (if cbRet cbv d = 32 then 1 else 0, .pub) ∧ s.ent = st.ent.tail ∧ s.mem = setBlock s11.mem bp X4) ?_ ?_
  · refine runs_seq (Q := fun e s => e = setVar e12 15 (mkPtr bp (baseP + 68), .pub) ∧ s = s12) (runs_assign _ (eadd e12 68 (by decide) ek12.2.2.2.2.2.2) ⟨rfl, rfl, rfl⟩) ?_
    intro e s ⟨he, hs⟩; rw [he, hs]
    refine runs_store (mkPtr bp (baseP + 68)) 32 bp 68 4 .pub rfl (by simp only [evalE, get_set_eq _ _ _ (show 15 < e12.size from by rw [ek12.1]; decide), reduceCtorEq, if_false])
      (by simp only [evalE, hc32]) (resolve_word hP12 68 (by omega) (by rw [size_writeLE]; omega) (by omega))
      ⟨rfl, by rw [get_set_ne _ _ _ _ (by decide)]; exact e12_6, hent12, by rw [blockBytes_of hP12, hm12, setBlock_setBlock _ _ _ _ _ hO2, hX4]⟩
  intro e13 s13 ⟨e13_6, hent13, hm13⟩
  refine runs_ret_some (if cbRet cbv d = 32 then 1 else 0, .pub) (by simp only [evalE, e13_6, reduceCtorEq, if_false]) ?_
  have hX4lo : ∀ q, (q < 64 ∨ 72 ≤ q) → X4[q]? = Z2[q]? := fun q hq => by
    rw [← hX4, getElem?_writeLE_out _ _ _ _ _ _ (by omega), getElem?_writeLE_out _ _ _ _ _ _ (by omega)]
  refine ⟨rfl, hent13, by rw [hm13, size_setBlock', hsz11, hsz10]; exact hsz9, ⟨X4, by rw [hm13, getElem?_setBlock', if_pos rfl, hO2]; rfl,
    by rw [← hX4, size_writeLE, size_writeLE]; exact hZ2sz, ?_, ?_⟩, fun j hj => ?_⟩
  · refine ⟨by rw [← hX4, size_writeLE, size_writeLE, hZ2sz]; exact hXs, ⟨by rw [← hX4, size_writeLE, size_writeLE]; exact hV2.1, fun k b hk => ?_⟩, hV1l,
      ⟨by rw [← hX4, size_writeLE, size_writeLE]; exact hO2d.1, fun k b hk => ?_⟩, hC2l, ?_, by decide, ?_⟩
    · have hk32 : k < 32 := by
        by_cases h : k < 32
        · exact h
        · rw [List.getElem?_eq_none (by omega)] at hk; cases hk
      obtain ⟨l, hx, hl⟩ := hV2.2 k b hk
      exact ⟨l, by rw [hX4lo _ (Or.inl (by omega))]; exact hx, hl⟩
    · have hk32 : k < 32 := by
        by_cases h : k < 32
        · exact h
        · rw [List.getElem?_eq_none (by omega)] at hk; cases hk
      obtain ⟨l, hx, hl⟩ := hO2d.2 k b hk
      exact ⟨l, by rw [hX4lo _ (Or.inl (by omega))]; exact hx, hl⟩
    · rw [← hX4, readLE_writeLE_ne _ 68 64 _ 4 4 .pub (Or.inl (by omega)), readLE_writeLE .pub (by decide) 4 Z2 64 1 (by omega)]; rfl
    · rw [← hX4, readLE_writeLE .pub (by decide) 4 _ 68 32 (by rw [size_writeLE]; omega)]; rfl
  · exact ⟨by rw [← hcb2.cb]; exact readLE_congr _ _ 8 72 (fun q h1 _ => hX4lo q (Or.inr h1)), by rw [← hcb2.ud]; exact readLE_congr _ _ 8 80 (fun q h1 _ => hX4lo q (Or.inr (by omega)))⟩
  · rw [hm13, getElem?_setBlock', if_neg hj]
    have a := K2 j; have b := K1 j
    rw [hoth9 j hj] at b
    exact okeep_mono (okeep_trans a b) (fun q h => by rcases h with h | h <;> exact hj h.1) (fun q h => by
      rcases h with (h | h) | (h | h)
      · exact (hj h.1).elim
      · simp only [List.length_nil, Nat.add_zero] at h; omega
      · exact (hj h.1).elim
      · exact h)

/-- **`x = tinyjambu_prng_init_user(state, callback, user_data, custom, custom_len)`** with a user callback -/
theorem prng_init_user_call_ret (cbarg cbv udv : Nat) (x : Nat) (env : Env) (st : St) (es ecb eud ec ecl : Expr) (bp bi : Nat) (X XI : Array LByte) (baseP basei ioff pc ud : Nat) (custom : Bytes)
    (hsel : (cbarg ≠ 0 ∧ cbv = cbarg ∧ udv = ud) ∨ (cbarg = 0 ∧ cbv = sysCb ∧ udv = 0)) (hk : CbOk cbv)
    (hes : evalE env es = .ok (mkPtr bp baseP, .pub)) (hecb : evalE env ecb = .ok (cbarg, .pub)) (heud : evalE env eud = .ok (ud, .pub))
    (hec : evalE env ec = .ok (pc, .pub)) (hecl : evalE env ecl = .ok (custom.length, .pub))
    (hP : st.mem[bp]? = some ⟨X, baseP⟩) (hXs : 96 ≤ X.size) (hal : baseP % 8 = 0) (hltP : baseP + X.size < ptrBase) (hud : ud < 18446744073709551616)
    (hI : custom = [] ∨ (st.mem[bi]? = some ⟨XI, basei⟩ ∧ BytesV XI ioff custom ∧ pc = mkPtr bi (basei + ioff) ∧ basei + XI.size < ptrBase)) (hne : bi ≠ bp)
    (hsz : st.mem.size + 5 < 2 ^ 30) :
    RunsTo prog (.call (some x) idx_tinyjambu_prng_init_user [es, ecb, eud, ec, ecl]) env st (fun sig e s => sig = .normal ∧
      e = setVar env x (if cbRet cbv (st.ent.headD ([], 0)) = 32 then 1 else 0, .pub) ∧ s.ent = st.ent.tail ∧ s.mem.size = st.mem.size ∧
      (∃ X', s.mem[bp]? = some ⟨X', baseP⟩ ∧ X'.size = X.size ∧
        PObjV X' (hashDf 0xFF (seedOf (st.ent.headD ([], 0)) (zeros 32)) custom) (hashDf 0 (hashDf 0xFF (seedOf (st.ent.headD ([], 0)) (zeros 32)) custom) []) 1 32 ∧ PCb X' udv cbv) ∧
      ∀ j, j ≠ bp → ORel (KeepW (fun _ => False) (fun q => j = bi ∧ ioff ≤ q ∧ q < ioff + custom.length)) s.mem[j]? st.mem[j]?) := by
  let vs : List LVal := [(mkPtr bp baseP, .pub), (cbarg, .pub), (ud, .pub), (pc, .pub), (custom.length, .pub)]
  refine runs_call_some f_tinyjambu_prng_init_user vs prog_prng_init_user (by simp only [evalArgs, hes, hecb, heud, hec, hecl]; rfl) rfl ?_
  rw [init_body_eq]
  refine (init_user_body cbarg cbv udv _ { st with mem := (enterFun f_tinyjambu_prng_init_user vs st.mem).2 } bp bi X XI baseP basei ioff pc ud custom hsel hk rfl rfl rfl rfl rfl rfl hP hXs hal hltP hud hI hne hsz).weaken ?_
  intro sig e s ⟨hs, hent, hmsz, hobj, hoth⟩
  have hmsz' : s.mem.size = st.mem.size := hmsz
  have hext : s.mem.extract 0 st.mem.size = s.mem := by rw [← hmsz']; exact extract_self _
  refine ⟨_, hs, rfl, rfl, hent, ?_, ?_, ?_⟩
  · show (s.mem.extract 0 st.mem.size).size = _; rw [hext]; exact hmsz'
  · show ∃ X', (s.mem.extract 0 st.mem.size)[bp]? = _ ∧ _; rw [hext]; exact hobj
  · show ∀ j, j ≠ bp → ORel _ (s.mem.extract 0 st.mem.size)[j]? _; rw [hext]; exact hoth

theorem prog_prng_init : prog[idx_tinyjambu_prng_init]? = some f_tinyjambu_prng_init := by
  simp only [prog, idx_tinyjambu_prng_init, List.getElem?_cons_succ, List.getElem?_cons_zero]

/-- what both `tinyjambu_prng_init(state, custom, len)` and `tinyjambu_prng_init_user(state, NULL, …, custom, len)` leave: the system source installed, user
    data zero, one delivery of the entropy script (the model of `tinyjambu_trng_generate`) hashed into `V` -/
def InitSysPost (st : St) (bp bi : Nat) (X : Array LByte) (baseP ioff : Nat) (custom : Bytes) (s : St) : Prop :=
  s.ent = st.ent.tail ∧ s.mem.size = st.mem.size ∧
    (∃ X', s.mem[bp]? = some ⟨X', baseP⟩ ∧ X'.size = X.size ∧
      PObjV X' (hashDf 0xFF (seedOf (st.ent.headD ([], 0)) (zeros 32)) custom) (hashDf 0 (hashDf 0xFF (seedOf (st.ent.headD ([], 0)) (zeros 32)) custom) []) 1 32 ∧ PCb X' 0 sysCb) ∧
    ∀ j, j ≠ bp → ORel (KeepW (fun _ => False) (fun q => j = bi ∧ ioff ≤ q ∧ q < ioff + custom.length)) s.mem[j]? st.mem[j]?

/-- **`x = tinyjambu_prng_init(state, custom, custom_len)`** on the regenerated term: `tinyjambu_prng_init_user` with the system source -/
theorem prng_init_call_ret (x : Nat) (env : Env) (st : St) (es ec ecl : Expr) (bp bi : Nat) (X XI : Array LByte) (baseP basei ioff pc : Nat) (custom : Bytes)
    (hes : evalE env es = .ok (mkPtr bp baseP, .pub)) (hec : evalE env ec = .ok (pc, .pub)) (hecl : evalE env ecl = .ok (custom.length, .pub))
    (hP : st.mem[bp]? = some ⟨X, baseP⟩) (hXs : 96 ≤ X.size) (hal : baseP % 8 = 0) (hltP : baseP + X.size < ptrBase)
    (hI : custom = [] ∨ (st.mem[bi]? = some ⟨XI, basei⟩ ∧ BytesV XI ioff custom ∧ pc = mkPtr bi (basei + ioff) ∧ basei + XI.size < ptrBase)) (hne : bi ≠ bp)
    (hsz : st.mem.size + 5 < 2 ^ 30) :
    RunsTo prog (.call (some x) idx_tinyjambu_prng_init [es, ec, ecl]) env st (fun sig e s => sig = .normal ∧
      e = setVar env x (if cbRet sysCb (st.ent.headD ([], 0)) = 32 then 1 else 0, .pub) ∧ InitSysPost st bp bi X baseP ioff custom s) := by
  let vs : List LVal := [(mkPtr bp baseP, .pub), (pc, .pub), (custom.length, .pub)]
  refine runs_call_some f_tinyjambu_prng_init vs prog_prng_init (by simp only [evalArgs, hes, hec, hecl]; rfl) rfl ?_
  have hent : enterFun f_tinyjambu_prng_init vs st.mem = (#[(mkPtr bp baseP, .pub), (pc, .pub), (custom.length, .pub), (0, .undef)], st.mem) := rfl
  have hbody : f_tinyjambu_prng_init.body = .seq (.call (some 3) idx_tinyjambu_prng_init_user [.var 0, .lit sysCb, .lit 0, .var 1, .var 2]) (.ret (some (.var 3))) := rfl
  rw [hbody, hent]
  refine runs_seq (prng_init_user_call_ret sysCb sysCb 0 3 _ { st with mem := st.mem } (.var 0) (.lit sysCb) (.lit 0) (.var 1) (.var 2) bp bi X XI baseP basei ioff pc 0 custom
    (Or.inl ⟨by decide, rfl, rfl⟩) (Or.inr rfl) (by simp [evalE]) (by simp [evalE]) (by simp [evalE]) (by simp [evalE]) (by simp [evalE]) hP hXs hal hltP (by decide) hI hne hsz) ?_
  intro e1 s1 ⟨he1, hent1, hsz1, hobj, hoth⟩
  rw [he1]
  refine runs_ret_some (if cbRet sysCb (st.ent.headD ([], 0)) = 32 then 1 else 0, .pub) (by
    simp only [evalE]; rw [get_set_eq _ _ _ (show 3 < 4 from by decide)]; simp) ?_
  have hsz1' : s1.mem.size = st.mem.size := hsz1
  have hext : s1.mem.extract 0 st.mem.size = s1.mem := by rw [← hsz1']; exact extract_self _
  refine ⟨_, rfl, rfl, rfl, hent1, ?_, ?_, ?_⟩
  · show (s1.mem.extract 0 st.mem.size).size = _; rw [hext]; exact hsz1'
  · show ∃ X', (s1.mem.extract 0 st.mem.size)[bp]? = _ ∧ _; rw [hext]; exact hobj
  · show ∀ j, j ≠ bp → ORel _ (s1.mem.extract 0 st.mem.size)[j]? _; rw [hext]; exact hoth

end TJ.MiniC.Hoare
