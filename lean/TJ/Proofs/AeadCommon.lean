/-
  TJ.Proofs.AeadCommon — the functions of src/backend/tinyjambu-aead-common-{128,192,256}.c as regenerated: the invariant of a cipher
  state object (four state words, `nk` key words, any defined labels) and the idioms the translated code is made of, generic in the
  permutation (`PermCallSpec`).
-/
import TJ.Proofs.AeadExpr
namespace TJ.MiniC.Hoare
open TJ TJ.MiniC TJ.MiniC.PermC TJ.Gen.MiniC

structure AGeo where
  prog : Program
  pidx : Nat
  nk : Nat
  P : List UInt32 → Nat → W4 → W4
  hspec : PermCallSpec prog pidx nk P
  bs : Nat
  baseS : Nat
  ent0 : List Delivery
  hal : baseS % 4 = 0
  hlt : baseS + (16 + 4 * nk) < ptrBase
  hbs30 : bs < 2 ^ 30

/-- the state words as a list -/
def sw (s : W4) : List UInt32 := [s.a, s.b, s.c, s.d]

structure AI (g : AGeo) (M : Array Block) (nv : Nat) (env : Env) (st : St) (s : W4) (kws : List UInt32) (sv : Nat := 0) : Prop where
  esz : env.size = nv
  e0 : env[sv]? = some (mkPtr g.bs g.baseS, .pub)
  klen : kws.length = g.nk
  obj : ∃ X, st.mem[g.bs]? = some ⟨X, g.baseS⟩ ∧ X.size = 16 + 4 * g.nk ∧ WordsV X (sw s ++ kws)
  oth : OthLe g.bs st.mem M
  msz : st.mem.size = M.size
  ent : st.ent = g.ent0

def addrS (i : Nat) (sv : Nat := 0) : Expr := if i = 0 then .var sv else .bin .add .u64 (.var sv) (.lit (4 * i))

theorem evalE_addrS (g : AGeo) {env : Env} (i : Nat) (hi : i < 4) {sv : Nat} (h0 : env[sv]? = some (mkPtr g.bs g.baseS, .pub)) :
    evalE env (addrS i sv) = .ok (mkPtr g.bs (g.baseS + 4 * i), .pub) := by
  have := g.hlt
  unfold addrS
  by_cases hz : i = 0
  · subst hz; simp only [if_true, evalE, h0, reduceCtorEq, if_false, Nat.mul_zero, Nat.add_zero]
  · simp only [hz, if_false, evalE, h0, reduceCtorEq, BinOp.needsPub2, BinOp.needsPub1, Bool.false_and, Bool.or_self, Bool.false_eq_true, binVal,
      Ty.modulus, Lab.join_pub_pub]
    rw [ptr_off g.bs g.baseS (4 * i) g.hbs30 (by omega)]

/-- the state with word `i` replaced -/
def setW (s : W4) (i : Nat) (v : UInt32) : W4 :=
  match i with
  | 0 => { s with a := v } | 1 => { s with b := v } | 2 => { s with c := v } | _ => { s with d := v }

theorem sw_set (s : W4) (i : Nat) (hi : i < 4) (v : UInt32) (kws : List UInt32) : (sw s ++ kws).set i v = sw (setW s i v) ++ kws := by
  match i, hi with
  | 0, _ => rfl
  | 1, _ => rfl
  | 2, _ => rfl
  | 3, _ => rfl

theorem sw_get (s : W4) (i : Nat) (hi : i < 4) (kws : List UInt32) : (sw s ++ kws)[i]? = some ((sw s).getD i 0) := by
  match i, hi with
  | 0, _ => rfl
  | 1, _ => rfl
  | 2, _ => rfl
  | 3, _ => rfl

/-- `p = &state->s[i]; x = *p; *p = x ^ E` -/
theorem ai_xor {g : AGeo} {M : Array Block} {nv : Nat} {env : Env} {st : St} {s : W4} {kws : List UInt32} {sv : Nat} (ai : AI g M nv env st s kws sv) (i t x : Nat) (E : Expr) (c : UInt32)
    (hi : i < 4) (ht : t ≠ sv ∧ t < nv) (hx : x ≠ sv ∧ x < nv) (htx : t ≠ x)
    (hE : ∀ e' : Env, (∀ y, y ≠ t → y ≠ x → e'[y]? = env[y]?) → EvalD e' E c.toNat)
    {Q : Sig → Env → St → Prop}
    (hQ : ∀ e' s', e'.size = nv → (∀ y, y ≠ t → y ≠ x → e'[y]? = env[y]?) → AI g M nv e' s' (setW s i ((sw s).getD i 0 ^^^ c)) kws sv → Q .normal e' s') :
    RunsTo g.prog (seqs [.assign t (addrS i sv), .load x .u32 (.var t), .store .u32 (.var t) (.bin .bxor .u32 (.var x) E)]) env st Q := by
  obtain ⟨X, hm, hXs, hw⟩ := ai.obj
  have hlt := g.hlt
  have hes := ai.esz
  let v := (sw s).getD i 0
  have hwi : WV X i v := hw.2 i v (sw_get s i hi kws)
  obtain ⟨l, hrd, hl⟩ := hwi.read
  have e1_t : (setVar env t (mkPtr g.bs (g.baseS + 4 * i), Lab.pub))[t]? = some (mkPtr g.bs (g.baseS + 4 * i), Lab.pub) := get_set_eq _ _ _ (by omega)
  have fr2 : ∀ y, y ≠ t → y ≠ x → (setVar (setVar env t (mkPtr g.bs (g.baseS + 4 * i), Lab.pub)) x (v.toNat, l))[y]? = env[y]? := fun y h1 h2 => by
    rw [get_set_ne _ _ _ _ (fun e => h2 e.symm), get_set_ne _ _ _ _ (fun e => h1 e.symm)]
  have e2_t : (setVar (setVar env t (mkPtr g.bs (g.baseS + 4 * i), Lab.pub)) x (v.toNat, l))[t]? = some (mkPtr g.bs (g.baseS + 4 * i), Lab.pub) := by
    rw [get_set_ne _ _ _ _ (fun e => htx e.symm)]; exact e1_t
  have e2_x : EnvHas (setVar (setVar env t (mkPtr g.bs (g.baseS + 4 * i), Lab.pub)) x (v.toNat, l)) x v.toNat :=
    ⟨l, get_set_eq _ _ _ (by simp only [size_setVar]; omega), hl⟩
  have e2s : (setVar (setVar env t (mkPtr g.bs (g.baseS + 4 * i), Lab.pub)) x (v.toNat, l)).size = nv := by simp only [size_setVar]; exact hes
  simp only [seqs]
  refine runs_seq (Q := fun e s' => e = setVar env t (mkPtr g.bs (g.baseS + 4 * i), Lab.pub) ∧ s' = st) (runs_assign _ (evalE_addrS g i hi ai.e0) ⟨rfl, rfl, rfl⟩) ?_
  intro e s' ⟨he, hs⟩; rw [he, hs]
  refine runs_seq (Q := fun e s' => e = setVar (setVar env t (mkPtr g.bs (g.baseS + 4 * i), Lab.pub)) x (v.toNat, l) ∧
      s' = { st with leak := Ev.rd (mkPtr g.bs (g.baseS + 4 * i)) 4 :: st.leak }) ?_ ?_
  · exact runs_load (mkPtr g.bs (g.baseS + 4 * i)) g.bs (4 * i) 4 (v.toNat, l) rfl
      (by simp only [evalE, e1_t, reduceCtorEq, if_false])
      (resolve_word hm (4 * i) (by have := g.hal; omega) (by omega) (by omega)) (by rw [blockBytes_of hm]; exact hrd) ⟨rfl, rfl, rfl⟩
  · intro e s' ⟨he, hs⟩; rw [he, hs]
    obtain ⟨lr, hev, hlr⟩ := (EvalD.var e2_x).bitop (hE _ fr2) .bxor .u32 (v ^^^ c).toNat ⟨rfl, rfl⟩ (binVal_bxor_u32 v c)
    refine runs_store (mkPtr g.bs (g.baseS + 4 * i)) (v ^^^ c).toNat g.bs (4 * i) 4 lr rfl (by simp only [evalE, e2_t, reduceCtorEq, if_false]) hev
      (resolve_word hm (4 * i) (by have := g.hal; omega) (by omega) (by omega)) ?_
    rw [blockBytes_of hm]
    refine hQ _ _ e2s fr2 ⟨e2s, ?_, ai.klen, ⟨writeLE X (4 * i) (v ^^^ c).toNat lr 4, ?_, by rw [size_writeLE]; exact hXs, ?_⟩, ?_, ?_, ai.ent⟩
    · rw [fr2 sv (by omega) (by omega)]; exact ai.e0
    · show (setBlock st.mem g.bs _)[g.bs]? = _; rw [getElem?_setBlock', if_pos rfl, hm]; rfl
    · have := hw.set i (by simp [sw]; omega) (v ^^^ c) lr hlr
      rw [sw_set s i hi] at this
      exact this
    · exact ai.oth.setBlock _
    · show (setBlock st.mem g.bs _).size = _; rw [size_setBlock']; exact ai.msz

theorem envLe_has {e e' : Env} (h : EnvLe e' e) {x v : Nat} (hx : EnvHas e x v) : EnvHas e' x v := by
  obtain ⟨l, hv, hl⟩ := hx
  have hi := h x
  rw [hv] at hi
  cases he : e'[x]? with
  | none => rw [he] at hi; exact hi.elim
  | some y =>
    rw [he] at hi
    obtain ⟨a, l'⟩ := y
    have e1 : a = v := hi.1
    subst e1
    exact ⟨l', he, fun hu => by have := hi.2; simp only [hu] at this; cases l <;> first | exact absurd rfl hl | exact this.elim⟩

/-- the permutation call on the state object -/
theorem ai_perm {g : AGeo} {M : Array Block} {nv : Nat} {env : Env} {st : St} {s : W4} {kws : List UInt32} {sv : Nat} (ai : AI g M nv env st s kws sv) (er : Expr) (r : Nat)
    (hr : r < 4294967296) (her : evalE env er = .ok (r, .pub))
    {Q : Sig → Env → St → Prop} (hQ : ∀ e' s', EnvLe e' env → AI g M nv e' s' (g.P kws r s) kws sv → Q .normal e' s') :
    RunsTo g.prog (.call none g.pidx [.var sv, er]) env st Q := by
  obtain ⟨X, hm, hXs, hw⟩ := ai.obj
  refine (g.hspec env st (.var sv) er r g.bs g.baseS X s kws ai.klen hr (by simp only [evalE, ai.e0, reduceCtorEq, if_false]) her hm g.hal
    (by rw [hXs]; exact g.hlt) g.hbs30 hw hXs).weaken ?_
  intro sig e s' ⟨hs, hee, hent, hmsz, hoth, blk', hb', hbase, hbsz, hw'⟩
  subst hs
  refine hQ e s' hee ⟨by rw [hee.size_eq]; exact ai.esz, envLe_pub hee sv _ ai.e0, ai.klen, ⟨blk'.bytes, by rw [hb', ← hbase], by rw [hbsz, hXs], hw'⟩,
    hoth.trans ai.oth, by rw [hmsz]; exact ai.msz, by rw [hent]; exact ai.ent⟩

/-- a data block somewhere else in memory: the bytes it held initially are still readable (with defined labels) -/
theorem data_block {g : AGeo} {M : Array Block} {nv : Nat} {env : Env} {st : St} {s : W4} {kws : List UInt32} {sv : Nat} (ai : AI g M nv env st s kws sv) (bd : Nat) (hne : bd ≠ g.bs)
    (XD : Array LByte) (based off : Nat) (data : Bytes) (h0 : M[bd]? = some ⟨XD, based⟩) (hd : BytesV XD off data) :
    ∃ XD', st.mem[bd]? = some ⟨XD', based⟩ ∧ XD'.size = XD.size ∧ BytesV XD' off data := by
  have hrel := ai.oth bd hne
  rw [h0] at hrel
  cases hb : st.mem[bd]? with
  | none => rw [hb] at hrel; exact hrel.elim
  | some blk =>
    rw [hb] at hrel
    have hbase : blk.base = based := hrel.1
    have hle : BytesLe blk.bytes XD := hrel.2
    exact ⟨blk.bytes, by rw [← hbase], hle.size_eq, ⟨by rw [hle.size_eq]; exact hd.1, fun k b hk => (hd.2 k b hk).lower hle⟩⟩

/-- `x = data[k]` -/
theorem load_byte {prog : Program} {env : Env} {st : St} (x : Nat) (ae : Expr) (bd based q : Nat) (XD : Array LByte) (b : UInt8)
    (hae : evalE env ae = .ok (mkPtr bd (based + q), .pub)) (hm : st.mem[bd]? = some ⟨XD, based⟩) (hb : BV XD q b) (hlt : based + q < ptrBase)
    {Q : Sig → Env → St → Prop}
    (hQ : ∀ l, l ≠ Lab.undef → Q .normal (setVar env x (b.toNat, l)) { st with leak := Ev.rd (mkPtr bd (based + q)) 1 :: st.leak }) :
    RunsTo prog (.load x .u8 ae) env st Q := by
  obtain ⟨l, hrd, hl⟩ := hb.read
  have hq : q < XD.size := by
    obtain ⟨l', hx, _⟩ := hb
    by_cases h : q < XD.size
    · exact h
    · rw [Array.getElem?_eq_none (by omega)] at hx; cases hx
  exact runs_load (mkPtr bd (based + q)) bd q 1 (b.toNat, l) rfl hae (resolve_byte hm q (by omega) hlt) (by rw [blockBytes_of hm]; exact hrd) (hQ l hl)

def addrD (o : Nat) (dv : Nat := 1) : Expr := if o = 0 then .var dv else .bin .add .u64 (.var dv) (.lit o)

theorem evalE_addrD {env : Env} (bd based o : Nat) (hbd30 : bd < 2 ^ 30) (hlt : based + o < ptrBase) {dv : Nat} (h1 : env[dv]? = some (mkPtr bd based, .pub)) :
    evalE env (addrD o dv) = .ok (mkPtr bd (based + o), .pub) := by
  unfold addrD
  by_cases hz : o = 0
  · subst hz; simp only [if_true, evalE, h1, reduceCtorEq, if_false, Nat.add_zero]
  · simp only [hz, if_false, evalE, h1, reduceCtorEq, BinOp.needsPub2, BinOp.needsPub1, Bool.false_and, Bool.or_self, Bool.false_eq_true, binVal,
      Ty.modulus, Lab.join_pub_pub]
    rw [ptr_off bd based o hbd30 hlt]

/-- a run of byte loads `y = data[o]` -/
def loadsOf (loads : List (Nat × Nat)) (dv : Nat := 1) : List Stmt := loads.map fun yo => .load yo.1 .u8 (addrD yo.2 dv)

theorem runs_loads {prog : Program} {dv : Nat} (bd based off : Nat) (XD : Array LByte) (dat : Bytes) (hbd30 : bd < 2 ^ 30) (hlt : based + XD.size < ptrBase)
    (hd : BytesV XD off dat) :
    ∀ (loads : List (Nat × Nat)) (env : Env) (st : St), loads ≠ [] → env[dv]? = some (mkPtr bd (based + off), .pub) → st.mem[bd]? = some ⟨XD, based⟩ →
      (∀ yo ∈ loads, yo.1 ≠ dv ∧ yo.1 < env.size ∧ yo.2 < dat.length) → (loads.map Prod.fst).Nodup →
      RunsTo prog (seqs (loadsOf loads dv)) env st (fun sig e' s' => sig = .normal ∧ e'.size = env.size ∧ s'.mem = st.mem ∧ s'.ent = st.ent ∧
        (∀ z, z ∉ loads.map Prod.fst → e'[z]? = env[z]?) ∧ (∀ yo ∈ loads, EnvHas e' yo.1 (dat.getD yo.2 0).toNat)) := by
  intro loads
  induction loads with
  | nil => intro _ _ h; exact absurd rfl h
  | cons yo rest ih =>
    intro env st _ h1 hm hall hnd
    obtain ⟨y, o⟩ := yo
    have hy := hall (y, o) (List.mem_cons_self)
    have hbo : BV XD (off + o) (dat.getD o 0) :=
      hd.2 o (dat.getD o 0) (by rw [List.getD_eq_getElem?_getD, List.getElem?_eq_getElem hy.2.2]; rfl)
    have hosz : off + o < XD.size := by have := hd.1; omega
    have step : RunsTo prog (.load y .u8 (addrD o dv)) env st (fun sig e' s' => sig = .normal ∧ ∃ l, l ≠ Lab.undef ∧
        e' = setVar env y ((dat.getD o 0).toNat, l) ∧ s' = { st with leak := Ev.rd (mkPtr bd (based + (off + o))) 1 :: st.leak }) :=
      load_byte y (addrD o dv) bd based (off + o) XD _ (by rw [evalE_addrD bd (based + off) o hbd30 (by omega) h1, Nat.add_assoc]) hm hbo (by omega)
        (fun l hl => ⟨rfl, l, hl, rfl, rfl⟩)
    cases rest with
    | nil =>
      refine step.weaken ?_
      intro sig e' s' ⟨hs, l, hl, he, hst⟩
      rw [he, hst]
      refine ⟨hs, size_setVar _ _ _, rfl, rfl, fun z hz => ?_, fun yo hyo => ?_⟩
      · rw [get_set_ne _ _ _ _ (fun e => hz (by simp [e]))]
      · simp only [List.mem_singleton] at hyo
        rw [hyo]
        exact ⟨l, get_set_eq _ _ _ hy.2.1, hl⟩
    | cons yo2 rest2 =>
      show RunsTo prog (.seq (.load y .u8 (addrD o dv)) (seqs (loadsOf (yo2 :: rest2) dv))) env st _
      refine runs_seq (Q := fun e' s' => ∃ l, l ≠ Lab.undef ∧ e' = setVar env y ((dat.getD o 0).toNat, l) ∧
          s' = { st with leak := Ev.rd (mkPtr bd (based + (off + o))) 1 :: st.leak }) step ?_
      intro e' s' ⟨l, hl, he, hst⟩
      rw [he, hst]
      have hnd' : ((yo2 :: rest2).map Prod.fst).Nodup := (List.nodup_cons.mp hnd).2
      have hynot : y ∉ (yo2 :: rest2).map Prod.fst := (List.nodup_cons.mp hnd).1
      refine (ih (setVar env y ((dat.getD o 0).toNat, l)) { st with leak := Ev.rd (mkPtr bd (based + (off + o))) 1 :: st.leak } (by simp) (by rw [get_set_ne _ _ _ _ hy.1]; exact h1) hm
        (fun yo hyo => by rw [size_setVar]; exact hall yo (List.mem_cons_of_mem _ hyo)) hnd').weaken ?_
      intro sig e'' s'' ⟨hs, hsz, hmm, hent, hfr, hhas⟩
      refine ⟨hs, by rw [hsz, size_setVar], hmm, hent, fun z hz => ?_, fun yo hyo => ?_⟩
      · have hz1 : z ≠ y := fun e => hz (by simp [e])
        have hz2 : z ∉ (yo2 :: rest2).map Prod.fst := fun h => hz (List.mem_cons_of_mem _ h)
        rw [hfr z hz2, get_set_ne _ _ _ _ (fun e => hz1 e.symm)]
      · rcases List.mem_cons.mp hyo with h | h
        · rw [h]
          refine ⟨l, ?_, hl⟩
          rw [hfr y hynot]
          exact get_set_eq _ _ _ hy.2.1
        · exact hhas yo h

/-- `x = *p; *p = x ^ E` where variable `t` already holds `p = &state->s[i]` -/
theorem ai_xor_tail {g : AGeo} {M : Array Block} {nv : Nat} {env : Env} {st : St} {s : W4} {kws : List UInt32} {sv : Nat} (ai : AI g M nv env st s kws sv) (i t x : Nat) (E : Expr) (c : UInt32)
    (hi : i < 4) (ht : t ≠ sv ∧ t < nv) (hx : x ≠ sv ∧ x < nv) (htx : t ≠ x) (het : env[t]? = some (mkPtr g.bs (g.baseS + 4 * i), .pub))
    (hE : ∀ e' : Env, (∀ y, y ≠ x → e'[y]? = env[y]?) → EvalD e' E c.toNat)
    {Q : Sig → Env → St → Prop}
    (hQ : ∀ e' s', e'.size = nv → (∀ y, y ≠ x → e'[y]? = env[y]?) → AI g M nv e' s' (setW s i ((sw s).getD i 0 ^^^ c)) kws sv → Q .normal e' s') :
    RunsTo g.prog (seqs [.load x .u32 (.var t), .store .u32 (.var t) (.bin .bxor .u32 (.var x) E)]) env st Q := by
  obtain ⟨X, hm, hXs, hw⟩ := ai.obj
  have hlt := g.hlt
  have hes := ai.esz
  let v := (sw s).getD i 0
  have hwi : WV X i v := hw.2 i v (sw_get s i hi kws)
  obtain ⟨l, hrd, hl⟩ := hwi.read
  have fr2 : ∀ y, y ≠ x → (setVar env x (v.toNat, l))[y]? = env[y]? := fun y h2 => get_set_ne _ _ _ _ (fun e => h2 e.symm)
  have e2_t : (setVar env x (v.toNat, l))[t]? = some (mkPtr g.bs (g.baseS + 4 * i), Lab.pub) := by rw [fr2 t htx]; exact het
  have e2_x : EnvHas (setVar env x (v.toNat, l)) x v.toNat := ⟨l, get_set_eq _ _ _ (by omega), hl⟩
  have e2s : (setVar env x (v.toNat, l)).size = nv := by simp only [size_setVar]; exact hes
  simp only [seqs]
  refine runs_seq (Q := fun e s' => e = setVar env x (v.toNat, l) ∧ s' = { st with leak := Ev.rd (mkPtr g.bs (g.baseS + 4 * i)) 4 :: st.leak }) ?_ ?_
  · exact runs_load (mkPtr g.bs (g.baseS + 4 * i)) g.bs (4 * i) 4 (v.toNat, l) rfl
      (by simp only [evalE, het, reduceCtorEq, if_false])
      (resolve_word hm (4 * i) (by have := g.hal; omega) (by omega) (by omega)) (by rw [blockBytes_of hm]; exact hrd) ⟨rfl, rfl, rfl⟩
  · intro e s' ⟨he, hs⟩; rw [he, hs]
    obtain ⟨lr, hev, hlr⟩ := (EvalD.var e2_x).bitop (hE _ fr2) .bxor .u32 (v ^^^ c).toNat ⟨rfl, rfl⟩ (binVal_bxor_u32 v c)
    refine runs_store (mkPtr g.bs (g.baseS + 4 * i)) (v ^^^ c).toNat g.bs (4 * i) 4 lr rfl (by simp only [evalE, e2_t, reduceCtorEq, if_false]) hev
      (resolve_word hm (4 * i) (by have := g.hal; omega) (by omega) (by omega)) ?_
    rw [blockBytes_of hm]
    refine hQ _ _ e2s fr2 ⟨e2s, ?_, ai.klen, ⟨writeLE X (4 * i) (v ^^^ c).toNat lr 4, ?_, by rw [size_writeLE]; exact hXs, ?_⟩, ?_, ?_, ai.ent⟩
    · rw [fr2 sv (by omega)]; exact ai.e0
    · show (setBlock st.mem g.bs _)[g.bs]? = _; rw [getElem?_setBlock', if_pos rfl, hm]; rfl
    · have := hw.set i (by simp [sw]; omega) (v ^^^ c) lr hlr
      rw [sw_set s i hi] at this
      exact this
    · exact ai.oth.setBlock _
    · show (setBlock st.mem g.bs _).size = _; rw [size_setBlock']; exact ai.msz

/-- where the data a function reads lies -/
structure DGeo (g : AGeo) (M : Array Block) where
  bd : Nat
  based : Nat
  XD : Array LByte
  hne : bd ≠ g.bs
  hbd30 : bd < 2 ^ 30
  hlt : based + XD.size < ptrBase
  h0 : M[bd]? = some ⟨XD, based⟩

/-- `p = &state->s[i]; y_1 = data[o_1]; …; x = *p; *p = x ^ E(y_1, …)` -/
theorem ai_xor_data {g : AGeo} {M : Array Block} (dg : DGeo g M) {nv : Nat} {env : Env} {st : St} {s : W4} {kws : List UInt32} {sv : Nat} (ai : AI g M nv env st s kws sv)
    (off : Nat) (dat : Bytes) (hd : BytesV dg.XD off dat) {dv : Nat} (he1 : env[dv]? = some (mkPtr dg.bd (dg.based + off), .pub))
    (i t x : Nat) (loads : List (Nat × Nat)) (E : Expr) (c : UInt32)
    (hi : i < 4) (ht : t ≠ sv ∧ t ≠ dv ∧ t < nv) (hx : x ≠ sv ∧ x ≠ dv ∧ x < nv) (htx : t ≠ x) (hl0 : loads ≠ [])
    (hall : ∀ yo ∈ loads, yo.1 ≠ sv ∧ yo.1 ≠ dv ∧ yo.1 < nv ∧ yo.1 ≠ t ∧ yo.1 ≠ x ∧ yo.2 < dat.length) (hnd : (loads.map Prod.fst).Nodup)
    (hE : ∀ e' : Env, (∀ yo ∈ loads, EnvHas e' yo.1 (dat.getD yo.2 0).toNat) → EvalD e' E c.toNat)
    {Q : Sig → Env → St → Prop}
    (hQ : ∀ e' s', e'.size = nv → (∀ y, y ≠ t → y ≠ x → y ∉ loads.map Prod.fst → e'[y]? = env[y]?) →
      AI g M nv e' s' (setW s i ((sw s).getD i 0 ^^^ c)) kws sv → Q .normal e' s') :
    RunsTo g.prog (seqs (.assign t (addrS i sv) :: (loadsOf loads dv ++ [.load x .u32 (.var t), .store .u32 (.var t) (.bin .bxor .u32 (.var x) E)]))) env st Q := by
  have hes := ai.esz
  obtain ⟨yo0, rest0, hl⟩ : ∃ yo0 rest0, loads = yo0 :: rest0 := by
    cases loads with
    | nil => exact absurd rfl hl0
    | cons a b => exact ⟨a, b, rfl⟩
  have hne : loadsOf loads dv ++ [.load x .u32 (.var t), .store .u32 (.var t) (.bin .bxor .u32 (.var x) E)] =
      (.load yo0.1 .u8 (addrD yo0.2 dv)) :: (loadsOf rest0 dv ++ [.load x .u32 (.var t), .store .u32 (.var t) (.bin .bxor .u32 (.var x) E)]) := by
    rw [hl]; rfl
  rw [hne, seqs_cons2, ← hne]
  have ai1 : AI g M nv (setVar env t (mkPtr g.bs (g.baseS + 4 * i), Lab.pub)) st s kws sv :=
    ⟨by rw [size_setVar]; exact hes, by rw [get_set_ne _ _ _ _ ht.1]; exact ai.e0, ai.klen, ai.obj, ai.oth, ai.msz, ai.ent⟩
  refine runs_seq (Q := fun e s' => e = setVar env t (mkPtr g.bs (g.baseS + 4 * i), Lab.pub) ∧ s' = st) (runs_assign _ (evalE_addrS g i hi ai.e0) ⟨rfl, rfl, rfl⟩) ?_
  intro e s' ⟨he, hs⟩; rw [he, hs]
  obtain ⟨XD', hmd, hXDs, hd'⟩ := data_block ai dg.bd dg.hne dg.XD dg.based off dat dg.h0 hd
  refine runs_seqs_append (Q := fun e' s' => e'.size = nv ∧ s'.mem = st.mem ∧ s'.ent = st.ent ∧
      (∀ z, z ∉ loads.map Prod.fst → e'[z]? = (setVar env t (mkPtr g.bs (g.baseS + 4 * i), Lab.pub))[z]?) ∧
      (∀ yo ∈ loads, EnvHas e' yo.1 (dat.getD yo.2 0).toNat)) _ (by simp) _ (by rw [hl]; simp [loadsOf]) _ _ ?_ ?_
  · refine (runs_loads dg.bd dg.based off XD' dat dg.hbd30 (by rw [hXDs]; exact dg.hlt) hd' loads _ st hl0
      (by rw [get_set_ne _ _ _ _ ht.2.1]; exact he1) hmd (fun yo hyo => by have := hall yo hyo; rw [size_setVar, hes]; exact ⟨this.2.1, this.2.2.1, this.2.2.2.2.2⟩) hnd).weaken ?_
    intro sig e' s' ⟨h1, h2, h3, h4, h5, h6⟩
    exact ⟨h1, by rw [h2, size_setVar]; exact hes, h3, h4, h5, h6⟩
  · intro e' s' ⟨hsz, hmm, hent, hfr, hhas⟩
    have ai2 : AI g M nv e' s' s kws sv :=
      ⟨hsz, by rw [hfr sv (fun h => by obtain ⟨yo, hyo, hy0⟩ := List.mem_map.mp h; exact (hall yo hyo).1 hy0)]; exact ai1.e0, ai.klen,
       by rw [hmm]; exact ai.obj, by rw [hmm]; exact ai.oth, by rw [hmm]; exact ai.msz, by rw [hent]; exact ai.ent⟩
    have htn : t ∉ loads.map Prod.fst := fun h => by obtain ⟨yo, hyo, hy0⟩ := List.mem_map.mp h; exact (hall yo hyo).2.2.2.1 hy0
    refine ai_xor_tail ai2 i t x E c hi ⟨ht.1, ht.2.2⟩ ⟨hx.1, hx.2.2⟩ htx (by rw [hfr t htn]; exact get_set_eq _ _ _ (by omega)) ?_ ?_
    · intro e'' hfr2
      apply hE
      intro yo hyo
      obtain ⟨l, hv, hl⟩ := hhas yo hyo
      exact ⟨l, by rw [hfr2 yo.1 (hall yo hyo).2.2.2.2.1]; exact hv, hl⟩
    · intro e'' s'' hsz'' hfr2 ai3
      refine hQ e'' s'' hsz'' (fun y h1 h2 h3 => ?_) ai3
      rw [hfr2 y h2, hfr y h3, get_set_ne _ _ _ _ (fun e => h1 e.symm)]

end TJ.MiniC.Hoare
