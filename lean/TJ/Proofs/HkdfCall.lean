/-
  TJ.Proofs.HkdfCall — `tinyjambu_hkdf_expand` as a call on the regenerated term (left-over bytes of the last block, then the block loop), and the
  one-shot `tinyjambu_hkdf`.
-/
import TJ.Proofs.HkdfExpand
import TJ.Proofs.PrngGenCall
namespace TJ.MiniC.Hoare
open TJ TJ.MiniC TJ.MiniC.PermC TJ.Gen.MiniC

theorem prog_hkdf_expand : prog[idx_tinyjambu_hkdf_expand]? = some f_tinyjambu_hkdf_expand := by
  simp only [prog, idx_tinyjambu_hkdf_expand, List.getElem?_cons_succ, List.getElem?_cons_zero]

def expandHeadThen (more : Stmt) : Stmt :=
  .seq (.assign 5 (.var 0))
  (.seq (.seq (.load 8 .u8 (.bin .add .u64 (.var 5) (.lit 65))) (.assign 7 (.cast .u64 .i32 (.bin .sub .i32 (.lit 32) (.cast .i32 .u8 (.var 8))))))
  (.seq (.ite (.bin .gt .u64 (.var 7) (.var 4)) (.assign 7 (.var 4)) .skip)
  (.seq (.seq (.load 9 .u8 (.bin .add .u64 (.var 5) (.lit 65)))
      (.seq (.memcpy (.var 3) (.bin .add .u64 (.bin .add .u64 (.var 5) (.lit 32)) (.cast .u64 .i32 (.cast .i32 .u8 (.var 9)))) (.var 7))
      (.assign 10 (.var 3))))
  (.seq (.assign 3 (.bin .add .u64 (.var 3) (.var 7)))
  (.seq (.assign 4 (.bin .sub .u64 (.var 4) (.var 7)))
  (.seq (.seq (.assign 11 (.bin .add .u64 (.var 5) (.lit 65))) (.seq (.load 12 .u8 (.var 11))
      (.store .u8 (.var 11) (.cast .u8 .u64 (.bin .add .u64 (.cast .u64 .u8 (.var 12)) (.var 7))))))
   more))))))

theorem expand_body_eq : f_tinyjambu_hkdf_expand.body = expandHeadThen (.seq (.loop expandLoopBody) (.ret (some (.lit 0)))) := rfl

theorem u8_add_small (c : UInt8) (n : Nat) (h : c.toNat + n ≤ 32) : ((c.toNat + n) % 18446744073709551616 % 256 % 256).toUInt8 = c + n.toUInt8 := by
  apply UInt8.toNat_inj.mp
  have h1 : (c.toNat + n) % 18446744073709551616 = c.toNat + n := Nat.mod_eq_of_lt (by omega)
  have h2 : (c.toNat + n) % 256 = c.toNat + n := Nat.mod_eq_of_lt (by omega)
  rw [h1, h2, h2]
  simp only [Nat.toUInt8, UInt8.toNat_add, UInt8.toNat_ofNat']
  omega

/-- **the head of `tinyjambu_hkdf_expand`**: the bytes left over from the last block are handed out first -/
theorem expand_head (G : XGeo) (mem0 : Array Block) (k : KState) (od : Prop) (hp32 : k.posn.toNat ≤ 32) (hod : (k.counter ≠ 1 ∨ k.posn.toNat < 32) → od)
    (e : Env) (s : St) (he0 : e[0]? = some (mkPtr G.bK G.baseK, .pub)) (hes : e.size = 21)
    (xi : XEI G mem0 k od [] G.n0 (setVar e 5 (mkPtr G.bK G.baseK, .pub)) s) (more : Stmt) {Q : Sig → Env → St → Prop}
    (hQ : ∀ e' s', XEI G mem0 { k with posn := k.posn + (min (32 - k.posn.toNat) G.n0).toUInt8 } od ((k.out.drop k.posn.toNat).take (min (32 - k.posn.toNat) G.n0))
      (G.n0 - min (32 - k.posn.toNat) G.n0) e' s' → RunsTo prog more e' s' Q) :
    RunsTo prog (expandHeadThen more) e s Q := by
  obtain ⟨X, hX, hXs, ho⟩ := xi.obj
  obtain ⟨XO, hXO, hXOs, hXOd, hXOo⟩ := xi.out
  have hbK := G.hbK; have hbo := G.hbo; have hGsz := G.hsz; have hksz := G.hksz; have hltK := G.hltK; have hltO := G.hltO; have hin := G.hin
  have hltO' : G.baseo + G.XO0.size < 4294967296 := by have := G.hltO; rwa [ptrBase_eq] at this
  have hltK' : G.baseK + G.ksz < 4294967296 := by have := G.hltK; rwa [ptrBase_eq] at this
  have hbK30 : G.bK < 2 ^ 30 := by omega
  have hbo30 : G.bo < 2 ^ 30 := by omega
  have hp32' : (mkPtr G.bK G.baseK + 32) % 18446744073709551616 = mkPtr G.bK (G.baseK + 32) := ptr_off G.bK G.baseK 32 hbK30 (by rw [ptrBase_eq]; omega)
  have hp65 : (mkPtr G.bK G.baseK + 65) % 18446744073709551616 = mkPtr G.bK (G.baseK + 65) := ptr_off G.bK G.baseK 65 hbK30 (by rw [ptrBase_eq]; omega)
  have hpp : (mkPtr G.bK (G.baseK + 32) + k.posn.toNat) % 18446744073709551616 = mkPtr G.bK (G.baseK + (32 + k.posn.toNat)) := by
    rw [ptr_off G.bK (G.baseK + 32) k.posn.toNat hbK30 (by rw [ptrBase_eq]; omega), Nat.add_assoc]
  have ev65 : ∀ (E : Env), E[5]? = some (mkPtr G.bK G.baseK, .pub) → evalE E (.bin .add .u64 (.var 5) (.lit 65)) = .ok (mkPtr G.bK (G.baseK + 65), .pub) := fun E h => by
    simp only [evalE, h, reduceCtorEq, if_false, BinOp.needsPub2, BinOp.needsPub1, Bool.false_and, Bool.or_self, Bool.false_eq_true, binVal, Ty.modulus, Lab.join_pub_pub, hp65]
  have fe := xi.fe
  generalize hL0 : min (32 - k.posn.toNat) G.n0 = len0 at hQ
  have hl0 : len0 ≤ 32 - k.posn.toNat := by rw [← hL0]; exact Nat.min_le_left _ _
  have hl0n : len0 ≤ G.n0 := by rw [← hL0]; exact Nat.min_le_right _ _
  have hpn : (k.posn + len0.toUInt8).toNat = k.posn.toNat + len0 := by
    have h : len0 < 256 := by omega
    simp only [UInt8.toNat_add, Nat.toUInt8, UInt8.toNat_ofNat', Nat.mod_eq_of_lt h]; omega
  unfold expandHeadThen
  refine runs_seq (Q := fun e1 s1 => e1 = setVar e 5 (mkPtr G.bK G.baseK, .pub) ∧ s1 = s) (runs_assign _ (by simp only [evalE, he0, reduceCtorEq, if_false]) ⟨rfl, rfl, rfl⟩) ?_
  intro e1 s1 ⟨he1, hs1⟩; rw [hs1]
  rw [← he1] at xi fe
  -- len = 32 - posn
  refine runs_seq (Q := fun e2 s2 => XFE G e2 ∧ e2[3]? = e1[3]? ∧ e2[4]? = e1[4]? ∧ e2[7]? = some (32 - k.posn.toNat, .pub) ∧ s2.mem = s.mem ∧ s2.ent = s.ent) ?_ ?_
  · refine runs_seq (Q := fun e2 s2 => e2 = setVar e1 8 (k.posn.toNat, .pub) ∧ s2.mem = s.mem ∧ s2.ent = s.ent)
      (load_pub_byte 8 _ G.bK G.baseK 65 X k.posn (ev65 e1 xi.e5) hX ho.posn (by rw [hXs]; exact hltK) ⟨rfl, rfl, rfl, rfl⟩) ?_
    intro e2 s2 ⟨he2, hm2, hent2⟩
    have e2_8 : e2[8]? = some (k.posn.toNat, .pub) := by rw [he2]; exact get_set_eq _ _ _ (by rw [xi.esz]; decide)
    have hsub : (32 + 4294967296 - k.posn.toNat % 4294967296) % 4294967296 = 32 - k.posn.toNat := by omega
    refine runs_assign (32 - k.posn.toNat, .pub) ?_ ⟨rfl, (by rw [he2]; exact (fe.set 8 _ (by decide)).set 7 _ (by decide)), by rw [get_set_ne _ _ _ _ (by decide), he2, get_set_ne _ _ _ _ (by decide)],
      by rw [get_set_ne _ _ _ _ (by decide), he2, get_set_ne _ _ _ _ (by decide)], get_set_eq _ _ _ (by rw [he2, size_setVar, xi.esz]; decide), hm2, hent2⟩
    simp only [evalE, e2_8, reduceCtorEq, if_false, TJ.MiniC.CheckTagC.castVal_i32_u8, BinOp.needsPub2, BinOp.needsPub1, Bool.false_and, Bool.or_self, Bool.false_eq_true, binVal, Ty.modulus,
      Lab.join_pub_pub, hsub, castVal_u64_i32_lit (32 - k.posn.toNat) (by omega)]
  intro e2 s2 ⟨fe2, e2_3, e2_4, e2_7, hm2, hent2⟩
  rw [xi.e3] at e2_3; rw [xi.e4] at e2_4
  -- if (len > outlen) len = outlen
  refine runs_seq (Q := fun e3 s3 => XFE G e3 ∧ e3[3]? = e2[3]? ∧ e3[4]? = e2[4]? ∧ e3[7]? = some (len0, .pub) ∧ s3.mem = s.mem ∧ s3.ent = s.ent) ?_ ?_
  · by_cases hgt : G.n0 < 32 - k.posn.toNat
    · refine runs_ite_true 1 ?_ (by decide) (runs_assign (G.n0, .pub) (by simp only [evalE, e2_4, reduceCtorEq, if_false])
        ⟨rfl, fe2.set 7 _ (by decide), get_set_ne _ _ _ _ (by decide), get_set_ne _ _ _ _ (by decide),
          by rw [get_set_eq _ _ _ (by rw [fe2.1]; decide), ← hL0, show min (32 - k.posn.toNat) G.n0 = G.n0 from by omega], hm2, hent2⟩)
      simp only [evalE, e2_7, e2_4, reduceCtorEq, if_false, BinOp.needsPub2, BinOp.needsPub1, Bool.false_and, Bool.or_self, Bool.false_eq_true, binVal, Ty.signed, gt_iff_lt, hgt,
        decide_true, b2n, if_true, Lab.join_pub_pub]
    · refine runs_ite_false ?_ (runs_skip ⟨rfl, fe2, rfl, rfl, by rw [e2_7, ← hL0, show min (32 - k.posn.toNat) G.n0 = 32 - k.posn.toNat from by omega], hm2, hent2⟩)
      simp only [evalE, e2_7, e2_4, reduceCtorEq, if_false, BinOp.needsPub2, BinOp.needsPub1, Bool.false_and, Bool.or_self, Bool.false_eq_true, binVal, Ty.signed, gt_iff_lt, hgt,
        decide_false, b2n, Lab.join_pub_pub]
  intro e3 s3 ⟨fe3, e3_3, e3_4, e3_7, hm3, hent3⟩
  rw [e2_3] at e3_3; rw [e2_4] at e3_4
  have hX3 : s3.mem[G.bK]? = some ⟨X, G.baseK⟩ := by rw [hm3]; exact hX
  have hXO3 : s3.mem[G.bo]? = some ⟨XO, G.baseo⟩ := by rw [hm3]; exact hXO
  -- memcpy(out, pstate->out + posn, len)
  have hfl : ((k.out.drop k.posn.toNat).take len0).length = len0 := by rw [List.length_take, List.length_drop, ho.outl]; omega
  have hsrc : BytesV X (32 + k.posn.toNat) ((k.out.drop k.posn.toNat).take len0) := by
    by_cases hp : k.posn.toNat < 32
    · exact bytesV_take' (bytesV_drop (ho.out (hod (Or.inr hp))) k.posn.toNat (by rw [ho.outl]; omega)) _
    · have : (k.out.drop k.posn.toNat).take len0 = [] := by
        apply List.eq_nil_of_length_eq_zero; rw [hfl]; omega
      rw [this]; exact ⟨by simp; omega, fun i b hi => by simp at hi⟩
  refine runs_seq (Q := fun e4 s4 => XFE G e4 ∧ e4[3]? = e3[3]? ∧ e4[4]? = e3[4]? ∧ e4[7]? = e3[7]? ∧ s4.ent = s.ent ∧ s4.mem.size = s.mem.size ∧
      (∀ j, j ≠ G.bo → s4.mem[j]? = s.mem[j]?) ∧
      ∃ XO', s4.mem[G.bo]? = some ⟨XO', G.baseo⟩ ∧ XO'.size = XO.size ∧ BytesV XO' G.oo ((k.out.drop k.posn.toNat).take len0) ∧
        (∀ p, (p < G.oo ∨ G.oo + ((k.out.drop k.posn.toNat).take len0).length ≤ p) → XO'[p]? = XO[p]?)) ?_ ?_
  · refine runs_seq (Q := fun e4 s4 => e4 = setVar e3 9 (k.posn.toNat, .pub) ∧ s4.mem = s.mem ∧ s4.ent = s.ent)
      (load_pub_byte 9 _ G.bK G.baseK 65 X k.posn (ev65 e3 fe3.2.2.2.1) hX3 ho.posn (by rw [hXs]; exact hltK) ⟨rfl, rfl, hm3, hent3⟩) ?_
    intro e4 s4 ⟨he4, hm4, hent4⟩
    have fe4 : XFE G e4 := by rw [he4]; exact fe3.set 9 _ (by decide)
    have e4_9 : e4[9]? = some (k.posn.toNat, .pub) := by rw [he4]; exact get_set_eq _ _ _ (by rw [fe3.1]; decide)
    have e4_3 : e4[3]? = some (mkPtr G.bo (G.baseo + (G.oo + ([] : Bytes).length)), .pub) := by rw [he4, get_set_ne _ _ _ _ (by decide)]; exact e3_3
    have e4_7 : e4[7]? = some (len0, .pub) := by rw [he4, get_set_ne _ _ _ _ (by decide)]; exact e3_7
    refine runs_seq (Q := fun e5 s5 => e5 = e4 ∧ s5.ent = s.ent ∧ s5.mem.size = s.mem.size ∧ (∀ j, j ≠ G.bo → s5.mem[j]? = s.mem[j]?) ∧
        ∃ XO', s5.mem[G.bo]? = some ⟨XO', G.baseo⟩ ∧ XO'.size = XO.size ∧ BytesV XO' G.oo ((k.out.drop k.posn.toNat).take len0) ∧
          (∀ p, (p < G.oo ∨ G.oo + ((k.out.drop k.posn.toNat).take len0).length ≤ p) → XO'[p]? = XO[p]?)) ?_ ?_
    · refine memcpy_blocks (.var 3) _ (.var 7) G.bo G.baseo G.oo XO G.bK G.baseK (32 + k.posn.toNat) X _ (by rw [hm4]; exact hXO) (by rw [hm4]; exact hX)
        hsrc (by rw [hfl, hXOs]; omega) (by rw [hXOs]; exact hltO) (by rw [hXs]; exact hltK)
        (by simp only [evalE, e4_3, reduceCtorEq, if_false, List.length_nil, Nat.add_zero]) ?_ (by simp only [evalE, e4_7, reduceCtorEq, if_false, hfl]) ?_
      · simp only [evalE, fe4.2.2.2.1, e4_9, reduceCtorEq, if_false, TJ.MiniC.CheckTagC.castVal_i32_u8, castVal_u64_i32_lit k.posn.toNat (UInt8.toNat_lt _), BinOp.needsPub2, BinOp.needsPub1,
          Bool.false_and, Bool.or_self, Bool.false_eq_true, binVal, Ty.modulus, Lab.join_pub_pub, hp32', hpp]
      · intro s' h1 h2 h3 h4
        exact ⟨rfl, rfl, h1.trans hent4, by rw [h2, hm4], fun j hj => by rw [h3 j hj, hm4], h4⟩
    · intro e5 s5 ⟨he5, g⟩
      rw [he5]
      exact runs_assign (mkPtr G.bo (G.baseo + (G.oo + ([] : Bytes).length)), .pub) (by simp only [evalE, e4_3, reduceCtorEq, if_false]) ⟨rfl, fe4.set 10 _ (by decide),
        by rw [get_set_ne _ _ _ _ (by decide), he4, get_set_ne _ _ _ _ (by decide)], by rw [get_set_ne _ _ _ _ (by decide), he4, get_set_ne _ _ _ _ (by decide)],
        by rw [get_set_ne _ _ _ _ (by decide), he4, get_set_ne _ _ _ _ (by decide)], g⟩
  intro e4 s4 ⟨fe4, e4_3, e4_4, e4_7, hent4, hsz4, hoth4, XO4, hXO4, hXO4s, hXO4d, hXO4o⟩
  rw [e3_3] at e4_3; rw [e3_4] at e4_4; rw [e3_7] at e4_7
  have hX4 : s4.mem[G.bK]? = some ⟨X, G.baseK⟩ := by rw [hoth4 _ G.hKo]; exact hX
  -- out += len; outlen -= len
  have hptr : (mkPtr G.bo (G.baseo + (G.oo + ([] : Bytes).length)) + len0) % 18446744073709551616 = mkPtr G.bo (G.baseo + (G.oo + ((k.out.drop k.posn.toNat).take len0).length)) := by
    rw [ptr_off G.bo _ len0 hbo30 (by rw [ptrBase_eq]; simp only [List.length_nil]; omega), hfl]
    congr 1
    simp only [List.length_nil]; omega
  refine runs_seq (Q := fun e5 s5 => XFE G e5 ∧ e5[3]? = some (mkPtr G.bo (G.baseo + (G.oo + ((k.out.drop k.posn.toNat).take len0).length)), .pub) ∧ e5[4]? = some (G.n0, .pub) ∧
      e5[7]? = some (len0, .pub) ∧ s5 = s4)
    (runs_assign _ (by simp only [evalE, e4_3, e4_7, reduceCtorEq, if_false, BinOp.needsPub2, BinOp.needsPub1, Bool.false_and, Bool.or_self, Bool.false_eq_true, binVal, Ty.modulus,
      Lab.join_pub_pub, hptr]) ⟨rfl, fe4.set 3 _ (by decide), get_set_eq _ _ _ (by rw [fe4.1]; decide), by rw [get_set_ne _ _ _ _ (by decide)]; exact e4_4,
        by rw [get_set_ne _ _ _ _ (by decide)]; exact e4_7, rfl⟩) ?_
  intro e5 s5 ⟨fe5, e5_3, e5_4, e5_7, hs5⟩
  rw [hs5]
  refine runs_seq (Q := fun e6 s6 => XFE G e6 ∧ e6[3]? = e5[3]? ∧ e6[4]? = some (G.n0 - len0, .pub) ∧ e6[7]? = some (len0, .pub) ∧ s6 = s4)
    (runs_assign (G.n0 - len0, .pub) (by simp only [evalE, e5_4, e5_7, reduceCtorEq, if_false, BinOp.needsPub2, BinOp.needsPub1, Bool.false_and, Bool.or_self, Bool.false_eq_true,
      binVal, Ty.modulus, Lab.join_pub_pub, sub64 G.n0 len0 (by omega) (by omega) (by omega)])
      ⟨rfl, fe5.set 4 _ (by decide), get_set_ne _ _ _ _ (by decide), get_set_eq _ _ _ (by rw [fe5.1]; decide), by rw [get_set_ne _ _ _ _ (by decide)]; exact e5_7, rfl⟩) ?_
  intro e6 s6 ⟨fe6, e6_3, e6_4, e6_7, hs6⟩
  rw [hs6]; rw [e5_3] at e6_3
  -- pstate->posn += len
  refine runs_seq (Q := fun e9 s9 => XEI G mem0 { k with posn := k.posn + len0.toUInt8 } od ((k.out.drop k.posn.toNat).take len0) (G.n0 - len0) e9 s9) ?_ (fun e9 s9 h => hQ e9 s9 h)
  refine runs_seq (Q := fun e7 s7 => e7 = setVar e6 11 (mkPtr G.bK (G.baseK + 65), .pub) ∧ s7 = s4) (runs_assign (mkPtr G.bK (G.baseK + 65), .pub) (ev65 e6 fe6.2.2.2.1) ⟨rfl, rfl, rfl⟩) ?_
  intro e7 s7 ⟨he7, hs7⟩; rw [hs7]
  have fe7 : XFE G e7 := by rw [he7]; exact fe6.set 11 _ (by decide)
  have e7_11 : e7[11]? = some (mkPtr G.bK (G.baseK + 65), .pub) := by rw [he7]; exact get_set_eq _ _ _ (by rw [fe6.1]; decide)
  refine runs_seq (Q := fun e8 s8 => e8 = setVar e7 12 (k.posn.toNat, .pub) ∧ s8.mem = s4.mem ∧ s8.ent = s4.ent)
    (load_pub_byte 12 (.var 11) G.bK G.baseK 65 X k.posn (by simp only [evalE, e7_11, reduceCtorEq, if_false]) hX4 ho.posn (by rw [hXs]; exact hltK) ⟨rfl, rfl, rfl, rfl⟩) ?_
  intro e8 s8 ⟨he8, hm8, hent8⟩
  have fe8 : XFE G e8 := by rw [he8]; exact fe7.set 12 _ (by decide)
  have e8_11 : e8[11]? = some (mkPtr G.bK (G.baseK + 65), .pub) := by rw [he8, get_set_ne _ _ _ _ (by decide)]; exact e7_11
  have e8_12 : e8[12]? = some (k.posn.toNat, .pub) := by rw [he8]; exact get_set_eq _ _ _ (by rw [fe7.1]; decide)
  have e8_7 : e8[7]? = some (len0, .pub) := by rw [he8, get_set_ne _ _ _ _ (by decide), he7, get_set_ne _ _ _ _ (by decide)]; exact e6_7
  have hX8 : s8.mem[G.bK]? = some ⟨X, G.baseK⟩ := by rw [hm8]; exact hX4
  refine runs_store (mkPtr G.bK (G.baseK + 65)) ((k.posn.toNat + len0) % 18446744073709551616 % 256) G.bK 65 1 .pub rfl (by simp only [evalE, e8_11, reduceCtorEq, if_false])
    (by simp only [evalE, e8_12, e8_7, reduceCtorEq, if_false, castVal, Ty.signed, Ty.modulus, Bool.false_eq_true, BinOp.needsPub2, BinOp.needsPub1, Bool.false_and, Bool.or_self, binVal,
      Lab.join_pub_pub, Nat.mod_eq_of_lt (show k.posn.toNat < 18446744073709551616 from by omega)]) (resolve_byte hX8 65 (by omega) (by rw [ptrBase_eq]; omega)) ?_
  refine ⟨rfl, fe8.1, fe8.2.1, fe8.2.2.1, by rw [he8, get_set_ne _ _ _ _ (by decide), he7, get_set_ne _ _ _ _ (by decide)]; exact e6_3,
    by rw [he8, get_set_ne _ _ _ _ (by decide), he7, get_set_ne _ _ _ _ (by decide)]; exact e6_4, fe8.2.2.2.1, fe8.2.2.2.2, ?_, fun h => hod (h.elim Or.inl (fun h2 => Or.inr (by rw [hpn] at h2; omega))), by rw [hpn]; omega, ?_, ?_, ?_, ?_, ?_, hent8.trans (hent4.trans xi.ent),
    by rw [hfl]; omega⟩
  · refine ⟨_, by show (setBlock s8.mem G.bK _)[G.bK]? = _; rw [getElem?_setBlock', if_pos rfl, hX8]; rfl, ?_, ?_⟩
    · rw [blockBytes_of hX8]; simp only [writeLE, Array.size_setIfInBounds]; exact hXs
    · rw [blockBytes_of hX8]
      simp only [writeLE, u8_add_small k.posn len0 (by omega)]
      exact ho.setPosn _
  · refine ⟨XO4, by show (setBlock s8.mem G.bK _)[G.bo]? = _; rw [getElem?_setBlock', if_neg G.hKo.symm, hm8]; exact hXO4, hXO4s.trans hXOs, hXO4d, fun q hq => ?_⟩
    rw [hXO4o q (by rw [hfl]; omega)]; exact hXOo q hq
  · obtain ⟨Lb, hLb, hLbs⟩ := xi.loc
    exact ⟨Lb, by show (setBlock s8.mem G.bK _)[G.L]? = _; rw [getElem?_setBlock', if_neg (by omega), hm8, hoth4 _ (by omega)]; exact hLb, hLbs⟩
  · rcases xi.inf with h | ⟨XI, hXI, hXIs, hXId⟩
    · exact Or.inl h
    · rcases G.hI with h | ⟨_, hiL, hiK, hio, _⟩
      · exact Or.inl h
      · exact Or.inr ⟨XI, by show (setBlock s8.mem G.bK _)[G.bi]? = _; rw [getElem?_setBlock', if_neg hiK, hm8, hoth4 _ hio]; exact hXI, hXIs, hXId⟩
  · intro j hjK hjo hjL
    show ORel BlockEqV (setBlock s8.mem G.bK _)[j]? _
    rw [getElem?_setBlock', if_neg hjK, hm8, hoth4 j hjo]
    exact xi.oth j hjK hjo hjL
  · show (setBlock s8.mem G.bK _).size = _
    rw [size_setBlock', hm8, hsz4]; exact xi.msz

/-- what `tinyjambu_hkdf_expand` leaves in the caller's memory -/
structure XPost (st : St) (bK bo : Nat) (X XO : Array LByte) (baseK baseo oo n : Nat) (kF : KState) (out : Bytes) (s : St) : Prop where
  ent : s.ent = st.ent
  msz : s.mem.size = st.mem.size
  obj : ∃ X' od', s.mem[bK]? = some ⟨X', baseK⟩ ∧ X'.size = X.size ∧ KObjV X' kF od' ∧ ((kF.counter ≠ 1 ∨ kF.posn.toNat < 32) → od') ∧ kF.posn.toNat ≤ 32
  buf : ∃ XO', s.mem[bo]? = some ⟨XO', baseo⟩ ∧ XO'.size = XO.size ∧ BytesV XO' oo out ∧ out.length = n ∧ ∀ q : Nat, (q < oo ∨ oo + n ≤ q) → ORel VEq XO'[q]? XO[q]?
  oth : ∀ j, j ≠ bK → j ≠ bo → ORel BlockEqV s.mem[j]? st.mem[j]?

/-- the C return value against the model's -/
def RetOk (rv : Nat) (r : Int) : Prop := (rv = 0 ∧ r = 0) ∨ (rv = 4294967295 ∧ r = -1)

/-- **the body of `tinyjambu_hkdf_expand`** run in its entry environment computes the model's `KState.expand` -/
theorem hkdf_expand_body (st : St) (bK bo : Nat) (X XO : Array LByte) (baseK baseo oo n : Nat) (k : KState) (od : Prop) (info : Bytes) (pinfo bi basei ioff : Nat) (XI : Array LByte)
    (hK : st.mem[bK]? = some ⟨X, baseK⟩) (ho : KObjV X k od) (hp32 : k.posn.toNat ≤ 32) (hod : (k.counter ≠ 1 ∨ k.posn.toNat < 32) → od)
    (hO : st.mem[bo]? = some ⟨XO, baseo⟩) (hKo : bK ≠ bo) (hltK : baseK + X.size < ptrBase) (hltO : baseo + XO.size < ptrBase) (hin : oo + n ≤ XO.size)
    (hI : info = [] ∨ (st.mem[bi]? = some ⟨XI, basei⟩ ∧ BytesV XI ioff info ∧ pinfo = mkPtr bi (basei + ioff) ∧ bi ≠ bK ∧ bi ≠ bo ∧ basei + XI.size < ptrBase))
    (hsz : st.mem.size + 6 < 2 ^ 30) :
    RunsTo prog f_tinyjambu_hkdf_expand.body
      (enterFun f_tinyjambu_hkdf_expand [(mkPtr bK baseK, .pub), (pinfo, .pub), (info.length, .pub), (mkPtr bo (baseo + oo), .pub), (n, .pub)] st.mem).1
      { st with mem := (enterFun f_tinyjambu_hkdf_expand [(mkPtr bK baseK, .pub), (pinfo, .pub), (info.length, .pub), (mkPtr bo (baseo + oo), .pub), (n, .pub)] st.mem).2 }
      (fun sig _ s => ∃ rv, sig = .ret (some (rv, .pub)) ∧ RetOk rv (k.expand info n).1 ∧
        XPost st bK bo X XO baseK baseo oo n (k.expand info n).2.2 (k.expand info n).2.1 { s with mem := s.mem.extract 0 st.mem.size }) := by
  have hbKN := mem_lt hK; have hboN := mem_lt hO
  let vs : List LVal := [(mkPtr bK baseK, .pub), (pinfo, .pub), (info.length, .pub), (mkPtr bo (baseo + oo), .pub), (n, .pub)]
  have hentr : enterFun f_tinyjambu_hkdf_expand vs st.mem = (setVar (vs ++ List.replicate 16 (0, Lab.undef)).toArray 6 (mkPtr st.mem.size 0, .pub),
      st.mem.push ⟨Array.replicate 56 (0, .undef), 0⟩) := rfl
  show RunsTo prog f_tinyjambu_hkdf_expand.body (enterFun f_tinyjambu_hkdf_expand vs st.mem).1 { st with mem := (enterFun f_tinyjambu_hkdf_expand vs st.mem).2 } _
  rw [expand_body_eq, hentr]
  obtain ⟨hE0s, hE0v, hE06⟩ := enter_env_one vs 5 16 6 (mkPtr st.mem.size 0, .pub) rfl (by decide) (by decide)
  generalize hE0 : setVar (vs ++ List.replicate 16 (0, Lab.undef)).toArray 6 (mkPtr st.mem.size 0, .pub) = E0 at hE0s hE0v hE06
  generalize hm1 : st.mem.push ⟨Array.replicate 56 (0, .undef), 0⟩ = mem1
  have hm1lt : ∀ j, j < st.mem.size → mem1[j]? = st.mem[j]? := by
    intro j hj; rw [← hm1, Array.getElem?_push]; simp only [show ¬ j = st.mem.size from by omega, if_false]
  have hm1n : mem1[st.mem.size]? = some ⟨Array.replicate 56 (0, .undef), 0⟩ := by rw [← hm1, Array.getElem?_push]; simp
  have hm1sz : mem1.size = st.mem.size + 1 := by rw [← hm1, Array.size_push]
  have hIg : info = [] ∨ (pinfo = mkPtr bi (basei + ioff) ∧ bi < st.mem.size ∧ bi ≠ bK ∧ bi ≠ bo ∧ basei + XI.size < ptrBase) := by
    rcases hI with h | ⟨h1, _, h3, h4, h5, h6⟩
    · exact Or.inl h
    · exact Or.inr ⟨h3, mem_lt h1, h4, h5, h6⟩
  let G : XGeo := ⟨st.mem.size, bK, baseK, X.size, bo, baseo, oo, XO, n, info, pinfo, bi, basei, ioff, XI.size, st.ent, hbKN, hboN, hKo, ho.sz, hltK, hltO, hin, hsz, hIg⟩
  have xi0 : XEI G mem1 k od [] n (setVar E0 5 (mkPtr bK baseK, .pub)) { st with mem := mem1 } := by
    have fr : ∀ y, y ≠ 5 → (setVar E0 5 (mkPtr bK baseK, Lab.pub))[y]? = E0[y]? := fun y hy => get_set_ne _ _ _ _ (fun h => hy h.symm)
    refine ⟨by rw [size_setVar]; exact hE0s, by rw [fr 1 (by decide)]; exact hE0v 1 _ rfl, by rw [fr 2 (by decide)]; exact hE0v 2 _ rfl, by rw [fr 3 (by decide)]; exact hE0v 3 _ rfl,
      by rw [fr 4 (by decide)]; exact hE0v 4 _ rfl, get_set_eq _ _ _ (by rw [hE0s]; decide), by rw [fr 6 (by decide)]; exact hE06,
      ⟨X, by show mem1[bK]? = _; rw [hm1lt bK hbKN]; exact hK, rfl, ho⟩, hod, hp32,
      ⟨XO, by show mem1[bo]? = _; rw [hm1lt bo hboN]; exact hO, rfl, ⟨by show oo + 0 ≤ XO.size; omega, fun i b hi => by simp at hi⟩, fun q _ => oveq_refl _⟩,
      ⟨_, hm1n, by simp⟩, ?_, fun j _ _ _ => orel_eqv_refl _, hm1sz, rfl, by show 0 + n = n; omega⟩
    rcases hI with h | ⟨h1, h2, _, _, _, _⟩
    · exact Or.inl h
    · exact Or.inr ⟨XI, by show mem1[bi]? = _; rw [hm1lt bi (mem_lt h1)]; exact h1, rfl, h2⟩
  refine expand_head G mem1 k od hp32 hod E0 { st with mem := mem1 } (hE0v 0 _ rfl) hE0s xi0 _ ?_
  intro e' s' xi'
  have hexp : k.expand info n = ((KState.expandLoop { k with posn := k.posn + (min (32 - k.posn.toNat) n).toUInt8 } info (n - min (32 - k.posn.toNat) n)).1,
      (k.out.drop k.posn.toNat).take (min (32 - k.posn.toNat) n) ++ (KState.expandLoop { k with posn := k.posn + (min (32 - k.posn.toNat) n).toUInt8 } info (n - min (32 - k.posn.toNat) n)).2.1,
      (KState.expandLoop { k with posn := k.posn + (min (32 - k.posn.toNat) n).toUInt8 } info (n - min (32 - k.posn.toNat) n)).2.2) := rfl
  rw [hexp]
  generalize { k with posn := k.posn + (min (32 - k.posn.toNat) n).toUInt8 } = k1 at xi' ⊢
  generalize (k.out.drop k.posn.toNat).take (min (32 - k.posn.toNat) n) = first at xi' ⊢
  generalize n - min (32 - k.posn.toNat) n = rem at xi' ⊢
  -- from the loop's memory to the caller's
  have fin : ∀ (s : St) (kF : KState) (out : Bytes), XF G mem1 kF out s → XPost st bK bo X XO baseK baseo oo n kF out { s with mem := s.mem.extract 0 st.mem.size } := by
    intro s kF out xf
    have hms : s.mem.size = st.mem.size + 1 := xf.msz
    have hlk : ∀ j, j < st.mem.size → (s.mem.extract 0 st.mem.size)[j]? = s.mem[j]? := by
      intro j hj
      rw [Array.getElem?_extract, hms]
      have : j < min st.mem.size (st.mem.size + 1) - 0 := by omega
      simp only [this, if_true, Nat.zero_add]
    have hexs : (s.mem.extract 0 st.mem.size).size = st.mem.size := by rw [Array.size_extract, hms]; omega
    obtain ⟨X', od', g1, g2, g3, g4, g5⟩ := xf.obj
    obtain ⟨XO', h1, h2, h3, h4⟩ := xf.buf
    refine ⟨xf.ent, hexs, ⟨X', od', by show (s.mem.extract 0 st.mem.size)[bK]? = _; rw [hlk bK hbKN]; exact g1, g2, g3, g4, g5⟩,
      ⟨XO', by show (s.mem.extract 0 st.mem.size)[bo]? = _; rw [hlk bo hboN]; exact h1, h2, h3, xf.len, h4⟩, fun j hjK hjo => ?_⟩
    show ORel BlockEqV (s.mem.extract 0 st.mem.size)[j]? st.mem[j]?
    by_cases hjn : j < st.mem.size
    · rw [hlk j hjn]
      have := xf.oth j hjK hjo (by show j ≠ st.mem.size; omega)
      rw [hm1lt j hjn] at this; exact this
    · rw [Array.getElem?_eq_none (by rw [hexs]; omega), Array.getElem?_eq_none (by omega)]; trivial
  refine runs_seq_cases (Q := fun _ s => (KState.expandLoop k1 info rem).1 = 0 ∧ XF G mem1 (KState.expandLoop k1 info rem).2.2 (first ++ (KState.expandLoop k1 info rem).2.1) s)
    ((expand_loop G mem1 rem k1 od first e' s' xi').weaken ?_) ?_
  · intro sig e s ⟨hr, xf⟩
    rcases hr with ⟨h1, h2⟩ | ⟨h1, h2⟩
    · exact Or.inr ⟨h1, h2, xf⟩
    · refine Or.inl ⟨by rw [h1]; exact Sig.noConfusion, 4294967295, h1, Or.inr ⟨rfl, h2⟩, fin s _ _ xf⟩
  · intro e s ⟨h2, xf⟩
    exact runs_ret_some (0, .pub) rfl ⟨0, rfl, Or.inl ⟨rfl, h2⟩, fin s _ _ xf⟩

/-- **`tinyjambu_hkdf_expand(state, info, infolen, out, outlen)` as a call** whose result is discarded -/
theorem hkdf_expand_call (env : Env) (st : St) (es ei eil eo en : Expr) (bK bo : Nat) (X XO : Array LByte) (baseK baseo oo n : Nat) (k : KState) (od : Prop) (info : Bytes)
    (pinfo bi basei ioff : Nat) (XI : Array LByte)
    (hes : evalE env es = .ok (mkPtr bK baseK, .pub)) (hei : evalE env ei = .ok (pinfo, .pub)) (heil : evalE env eil = .ok (info.length, .pub))
    (heo : evalE env eo = .ok (mkPtr bo (baseo + oo), .pub)) (hen : evalE env en = .ok (n, .pub))
    (hK : st.mem[bK]? = some ⟨X, baseK⟩) (ho : KObjV X k od) (hp32 : k.posn.toNat ≤ 32) (hod : (k.counter ≠ 1 ∨ k.posn.toNat < 32) → od)
    (hO : st.mem[bo]? = some ⟨XO, baseo⟩) (hKo : bK ≠ bo) (hltK : baseK + X.size < ptrBase) (hltO : baseo + XO.size < ptrBase) (hin : oo + n ≤ XO.size)
    (hI : info = [] ∨ (st.mem[bi]? = some ⟨XI, basei⟩ ∧ BytesV XI ioff info ∧ pinfo = mkPtr bi (basei + ioff) ∧ bi ≠ bK ∧ bi ≠ bo ∧ basei + XI.size < ptrBase))
    (hsz : st.mem.size + 6 < 2 ^ 30) :
    RunsTo prog (.call none idx_tinyjambu_hkdf_expand [es, ei, eil, eo, en]) env st (fun sig e s => sig = .normal ∧ e = env ∧
      XPost st bK bo X XO baseK baseo oo n (k.expand info n).2.2 (k.expand info n).2.1 s) := by
  refine runs_call_none f_tinyjambu_hkdf_expand [(mkPtr bK baseK, .pub), (pinfo, .pub), (info.length, .pub), (mkPtr bo (baseo + oo), .pub), (n, .pub)] prog_hkdf_expand
    (by simp only [evalArgs, hes, hei, heil, heo, hen]) rfl ?_
  refine (hkdf_expand_body st bK bo X XO baseK baseo oo n k od info pinfo bi basei ioff XI hK ho hp32 hod hO hKo hltK hltO hin hI hsz).weaken ?_
  intro sig e s ⟨rv, _, _, xp⟩
  exact ⟨rfl, rfl, xp⟩

/-- **`x = tinyjambu_hkdf_expand(state, info, infolen, out, outlen)`**: the result is the model's (0, or -1 once the block counter is exhausted) -/
theorem hkdf_expand_call_ret (x : Nat) (env : Env) (st : St) (es ei eil eo en : Expr) (bK bo : Nat) (X XO : Array LByte) (baseK baseo oo n : Nat) (k : KState) (od : Prop) (info : Bytes)
    (pinfo bi basei ioff : Nat) (XI : Array LByte)
    (hes : evalE env es = .ok (mkPtr bK baseK, .pub)) (hei : evalE env ei = .ok (pinfo, .pub)) (heil : evalE env eil = .ok (info.length, .pub))
    (heo : evalE env eo = .ok (mkPtr bo (baseo + oo), .pub)) (hen : evalE env en = .ok (n, .pub))
    (hK : st.mem[bK]? = some ⟨X, baseK⟩) (ho : KObjV X k od) (hp32 : k.posn.toNat ≤ 32) (hod : (k.counter ≠ 1 ∨ k.posn.toNat < 32) → od)
    (hO : st.mem[bo]? = some ⟨XO, baseo⟩) (hKo : bK ≠ bo) (hltK : baseK + X.size < ptrBase) (hltO : baseo + XO.size < ptrBase) (hin : oo + n ≤ XO.size)
    (hI : info = [] ∨ (st.mem[bi]? = some ⟨XI, basei⟩ ∧ BytesV XI ioff info ∧ pinfo = mkPtr bi (basei + ioff) ∧ bi ≠ bK ∧ bi ≠ bo ∧ basei + XI.size < ptrBase))
    (hsz : st.mem.size + 6 < 2 ^ 30) :
    RunsTo prog (.call (some x) idx_tinyjambu_hkdf_expand [es, ei, eil, eo, en]) env st (fun sig e s => sig = .normal ∧ ∃ rv, e = setVar env x (rv, .pub) ∧
      RetOk rv (k.expand info n).1 ∧ XPost st bK bo X XO baseK baseo oo n (k.expand info n).2.2 (k.expand info n).2.1 s) := by
  refine runs_call_some f_tinyjambu_hkdf_expand [(mkPtr bK baseK, .pub), (pinfo, .pub), (info.length, .pub), (mkPtr bo (baseo + oo), .pub), (n, .pub)] prog_hkdf_expand
    (by simp only [evalArgs, hes, hei, heil, heo, hen]) rfl ?_
  refine (hkdf_expand_body st bK bo X XO baseK baseo oo n k od info pinfo bi basei ioff XI hK ho hp32 hod hO hKo hltK hltO hin hI hsz).weaken ?_
  intro sig e s ⟨rv, hs, hr, xp⟩
  exact ⟨(rv, .pub), hs, rfl, rv, rfl, hr, xp⟩

end TJ.MiniC.Hoare
