import TJ.Proofs.PbkdfXor
namespace TJ.MiniC.Hoare
open TJ TJ.MiniC TJ.MiniC.PermC TJ.Gen.MiniC

def beStoreStmt : Stmt :=
  seqs [.assign 10 (.cast .u32 .u64 (.var 8)),
        seqs [.assign 11 (.var 9), .store .u8 (.var 11) (.cast .u8 .u32 (.bin .shr .u32 (.var 10) (.lit 24)))],
        seqs [.assign 12 (.bin .add .u64 (.var 9) (.lit 1)), .store .u8 (.var 12) (.cast .u8 .u32 (.bin .shr .u32 (.var 10) (.lit 16)))],
        seqs [.assign 13 (.bin .add .u64 (.var 9) (.lit 2)), .store .u8 (.var 13) (.cast .u8 .u32 (.bin .shr .u32 (.var 10) (.lit 8)))],
        seqs [.assign 14 (.bin .add .u64 (.var 9) (.lit 3)), .store .u8 (.var 14) (.cast .u8 .u32 (.var 10))]]

def pfIterBody : Stmt :=
  .ite (.bin .gt .u64 (.var 7) (.cast .u64 .i32 (.lit 2)))
    (seqs [.call none idx_tinyjambu_hmac_reinit [.var 0, .var 3, .var 4], .call none idx_tinyjambu_hmac_update [.var 0, .var 2, .cast .u64 .i32 (.lit 32)],
           .call none idx_tinyjambu_hmac_finalize [.var 0, .var 3, .var 4, .var 2], xor32Stmt 23, .assign 7 (.bin .sub .u64 (.var 7) (.lit 1))])
    .brk

def pfBody : Stmt :=
  seqs [beStoreStmt,
        .call none idx_tinyjambu_hmac_init [.var 0, .var 3, .var 4], .call none idx_tinyjambu_hmac_update [.var 0, .var 5, .var 6],
        .call none idx_tinyjambu_hmac_update [.var 0, .var 9, .lit 4], .call none idx_tinyjambu_hmac_finalize [.var 0, .var 3, .var 4, .var 1],
        .ite (.bin .gt .u64 (.var 7) (.cast .u64 .i32 (.lit 1)))
          (seqs [.call none idx_tinyjambu_hmac_reinit [.var 0, .var 3, .var 4], .call none idx_tinyjambu_hmac_update [.var 0, .var 1, .cast .u64 .i32 (.lit 32)],
                 .call none idx_tinyjambu_hmac_finalize [.var 0, .var 3, .var 4, .var 2], xor32Stmt 15, .loop pfIterBody])
          .skip,
        .call none idx_tinyjambu_hmac_free [.var 0]]

theorem pf_body_eq : f_tinyjambu_pbkdf2_f.body = pfBody := rfl


theorem beStore_eq : beStoreStmt = seqs [.assign 10 (.cast .u32 .u64 (.var 8)), byteStmtV 9 11 0 10 3, byteStmtV 9 12 1 10 2, byteStmtV 9 13 2 10 1, byteStmtV 9 14 3 10 0] := rfl

/-- `p = buf + q; *p = (uint8_t)(w >> 8j)` on an explicit block -/
theorem plain_byteStmt {env : Env} {st : St} (ov t q w j : Nat) (b base : Nat) (X : Array LByte) (v : UInt32)
    (hov : env[ov]? = some (mkPtr b base, .pub)) (hm : st.mem[b]? = some ⟨X, base⟩) (hq : q < X.size) (hlt : base + X.size < ptrBase) (hb30 : b < 2 ^ 30)
    (ht : t < env.size) (htw : t ≠ w) (hj : j < 4) (hw : EnvHas env w v.toNat)
    {Q : Sig → Env → St → Prop}
    (hQ : ∀ l, l ≠ Lab.undef → Q .normal (setVar env t (mkPtr b (base + q), .pub))
      { st with leak := .wr (mkPtr b (base + q)) 1 :: st.leak, mem := setBlock st.mem b (X.setIfInBounds q (byteOf v.toNat j, l)) }) :
    RunsTo prog (byteStmtV ov t q w j) env st Q := by
  unfold byteStmtV
  simp only [seqs]
  refine runs_seq (Q := fun e s => e = setVar env t (mkPtr b (base + q), .pub) ∧ s = st)
    (runs_assign _ (evalE_addrD b base q hb30 (by omega) hov) ⟨rfl, rfl, rfl⟩) ?_
  intro e s ⟨he, hs⟩; rw [he, hs]
  have hw' : EnvHas (setVar env t (mkPtr b (base + q), Lab.pub)) w v.toNat := hw.frame (get_set_ne _ _ _ _ htw)
  obtain ⟨l, hev, hl⟩ := evalD_byteVal hw' j hj
  refine runs_store (mkPtr b (base + q)) (byteOf v.toNat j).toNat b q 1 l rfl (by simp only [evalE, get_set_eq _ _ _ ht, reduceCtorEq, if_false]) hev
    (resolve_byte hm q (by omega) (by omega)) ?_
  rw [blockBytes_of hm]
  have hwr : writeLE X q (byteOf v.toNat j).toNat l 1 = X.setIfInBounds q (byteOf v.toNat j, l) := by
    simp only [writeLE, Nat.mod_eq_of_lt (UInt8.toNat_lt _)]
    congr 2
    exact UInt8.toNat_inj.mp (by simp [Nat.toUInt8])
  rw [hwr]
  exact hQ l hl

theorem store32be_bytes (w : UInt32) : store32be w = [byteOf w.toNat 3, byteOf w.toNat 2, byteOf w.toNat 1, byteOf w.toNat 0] := by
  have := byteOf_store w
  simp only [store32be, this.1, this.2.1, this.2.2.1, this.2.2.2]

/-- `be_store_word32(b, (uint32_t)blocknum)` into the local 4-byte buffer -/
theorem be_store_run {env : Env} {st : St} (nb : Nat) (bn : Nat) (hes : env.size = 31) (h8 : env[8]? = some (bn, .pub)) (h9 : env[9]? = some (mkPtr nb 0, .pub))
    (hm : st.mem[nb]? = some ⟨Array.replicate 4 (0, .undef), 0⟩) (hnb : nb < 2 ^ 30) :
    RunsTo prog beStoreStmt env st (fun sig e' s' => sig = .normal ∧ e'.size = 31 ∧ (∀ y, y < 10 → e'[y]? = env[y]?) ∧ s'.ent = st.ent ∧ s'.mem.size = st.mem.size ∧
      (∀ j, j ≠ nb → s'.mem[j]? = st.mem[j]?) ∧ HasBuf s'.mem nb 0 0 4 (store32be bn.toUInt32)) := by
  rw [beStore_eq]
  simp only [seqs]
  have hv : castVal .u32 .u64 bn = bn.toUInt32.toNat := by simp [castVal, Ty.signed, Ty.modulus, Nat.toUInt32]
  refine runs_seq (Q := fun e s => e = setVar env 10 (bn.toUInt32.toNat, .pub) ∧ s = st) (runs_assign _ (by simp only [evalE, h8, reduceCtorEq, if_false, hv]) ⟨rfl, rfl, rfl⟩) ?_
  intro e s ⟨he, hs⟩; rw [he, hs]
  generalize hE1 : setVar env 10 (bn.toUInt32.toNat, Lab.pub) = E1
  have e1s : E1.size = 31 := by rw [← hE1, size_setVar]; exact hes
  have e1_9 : E1[9]? = some (mkPtr nb 0, .pub) := by rw [← hE1, get_set_ne _ _ _ _ (by decide)]; exact h9
  have e1_10 : EnvHas E1 10 bn.toUInt32.toNat := ⟨.pub, by rw [← hE1]; exact get_set_eq _ _ _ (by omega), by decide⟩
  have e1fr : ∀ y, y < 10 → E1[y]? = env[y]? := fun y hy => by rw [← hE1]; exact get_set_ne _ _ _ _ (by omega)
  generalize hw : bn.toUInt32 = w at e1_10
  refine runs_seq (Q := fun e s => ∃ l0, l0 ≠ Lab.undef ∧ e = setVar E1 11 (mkPtr nb (0 + 0), .pub) ∧ s.ent = st.ent ∧
      s.mem = setBlock st.mem nb ((Array.replicate 4 ((0 : UInt8), Lab.undef)).setIfInBounds 0 (byteOf w.toNat 3, l0))) ?_ ?_
  · exact plain_byteStmt 9 11 0 10 3 nb 0 _ w e1_9 hm (by simp) (by simp [ptrBase]) hnb (by omega) (by decide) (by decide) e1_10 (fun l hl => ⟨rfl, l, hl, rfl, rfl, rfl⟩)
  intro e2 s2 ⟨l0, hl0, he2, hent2, hm2⟩
  rw [he2]
  generalize hX1 : (Array.replicate 4 ((0 : UInt8), Lab.undef)).setIfInBounds 0 (byteOf w.toNat 3, l0) = X1 at hm2
  have hX1s : X1.size = 4 := by rw [← hX1]; simp
  have hs2m : s2.mem[nb]? = some ⟨X1, 0⟩ := by rw [hm2, getElem?_setBlock', if_pos rfl, hm]; rfl
  have f2 : ∀ y, y ≠ 11 → (setVar E1 11 (mkPtr nb (0 + 0), Lab.pub))[y]? = E1[y]? := fun y hy => get_set_ne _ _ _ _ (fun e => hy e.symm)
  refine runs_seq (Q := fun e s => ∃ l1, l1 ≠ Lab.undef ∧ e = setVar (setVar E1 11 (mkPtr nb (0 + 0), .pub)) 12 (mkPtr nb (0 + 1), .pub) ∧ s.ent = st.ent ∧
      s.mem = setBlock s2.mem nb (X1.setIfInBounds 1 (byteOf w.toNat 2, l1))) ?_ ?_
  · exact plain_byteStmt 9 12 1 10 2 nb 0 X1 w (by rw [f2 9 (by decide)]; exact e1_9) hs2m (by omega) (by rw [hX1s]; simp [ptrBase]) hnb (by rw [size_setVar]; omega) (by decide) (by decide)
      (e1_10.frame (f2 10 (by decide))) (fun l hl => ⟨rfl, l, hl, rfl, hent2, rfl⟩)
  intro e3 s3 ⟨l1, hl1, he3, hent3, hm3⟩
  rw [he3]
  generalize hX2 : X1.setIfInBounds 1 (byteOf w.toNat 2, l1) = X2 at hm3
  have hX2s : X2.size = 4 := by rw [← hX2]; simp [hX1s]
  have hs3m : s3.mem[nb]? = some ⟨X2, 0⟩ := by rw [hm3, getElem?_setBlock', if_pos rfl, hs2m]; rfl
  have f3 : ∀ y, y ≠ 11 → y ≠ 12 → (setVar (setVar E1 11 (mkPtr nb (0 + 0), Lab.pub)) 12 (mkPtr nb (0 + 1), Lab.pub))[y]? = E1[y]? := fun y h1 h2 => by
    rw [get_set_ne _ _ _ _ (fun e => h2 e.symm)]; exact f2 y h1
  refine runs_seq (Q := fun e s => ∃ l2, l2 ≠ Lab.undef ∧ e = setVar (setVar (setVar E1 11 (mkPtr nb (0 + 0), .pub)) 12 (mkPtr nb (0 + 1), .pub)) 13 (mkPtr nb (0 + 2), .pub) ∧
      s.ent = st.ent ∧ s.mem = setBlock s3.mem nb (X2.setIfInBounds 2 (byteOf w.toNat 1, l2))) ?_ ?_
  · exact plain_byteStmt 9 13 2 10 1 nb 0 X2 w (by rw [f3 9 (by decide) (by decide)]; exact e1_9) hs3m (by omega) (by rw [hX2s]; simp [ptrBase]) hnb (by simp only [size_setVar]; omega)
      (by decide) (by decide) (e1_10.frame (f3 10 (by decide) (by decide))) (fun l hl => ⟨rfl, l, hl, rfl, hent3, rfl⟩)
  intro e4 s4 ⟨l2, hl2, he4, hent4, hm4⟩
  rw [he4]
  generalize hX3 : X2.setIfInBounds 2 (byteOf w.toNat 1, l2) = X3 at hm4
  have hX3s : X3.size = 4 := by rw [← hX3]; simp [hX2s]
  have hs4m : s4.mem[nb]? = some ⟨X3, 0⟩ := by rw [hm4, getElem?_setBlock', if_pos rfl, hs3m]; rfl
  have f4 : ∀ y, y ≠ 11 → y ≠ 12 → y ≠ 13 → (setVar (setVar (setVar E1 11 (mkPtr nb (0 + 0), Lab.pub)) 12 (mkPtr nb (0 + 1), Lab.pub)) 13 (mkPtr nb (0 + 2), Lab.pub))[y]? = E1[y]? :=
    fun y h1 h2 h3 => by rw [get_set_ne _ _ _ _ (fun e => h3 e.symm)]; exact f3 y h1 h2
  refine plain_byteStmt 9 14 3 10 0 nb 0 X3 w (by rw [f4 9 (by decide) (by decide) (by decide)]; exact e1_9) hs4m (by omega) (by rw [hX3s]; simp [ptrBase]) hnb
    (by simp only [size_setVar]; omega) (by decide) (by decide) (e1_10.frame (f4 10 (by decide) (by decide) (by decide))) ?_
  intro l3 hl3
  refine ⟨rfl, by simp only [size_setVar]; exact e1s, fun y hy => by rw [get_set_ne _ _ _ _ (by omega), f4 y (by omega) (by omega) (by omega)]; exact e1fr y hy, hent4, ?_, fun j hj => ?_, ?_⟩
  · show (setBlock s4.mem nb _).size = _
    rw [size_setBlock', hm4, size_setBlock', hm3, size_setBlock', hm2, size_setBlock']
  · show (setBlock s4.mem nb _)[j]? = _
    rw [getElem?_setBlock', if_neg hj, hm4, getElem?_setBlock', if_neg hj, hm3, getElem?_setBlock', if_neg hj, hm2, getElem?_setBlock', if_neg hj]
  · refine ⟨X3.setIfInBounds 3 (byteOf w.toNat 0, l3), by show (setBlock s4.mem nb _)[nb]? = _; rw [getElem?_setBlock', if_pos rfl, hs4m]; rfl, by simp [hX3s], ⟨by simp [hX3s, store32be], ?_⟩⟩
    intro k b hk
    rw [store32be_bytes] at hk
    match k, hk with
    | 0, hk => rw [List.getElem?_cons_zero] at hk; rw [← Option.some.inj hk]
               exact ⟨l0, by rw [← hX3, ← hX2, ← hX1]; simp [Array.getElem?_setIfInBounds], hl0⟩
    | 1, hk => rw [List.getElem?_cons_succ, List.getElem?_cons_zero] at hk; rw [← Option.some.inj hk]
               exact ⟨l1, by rw [← hX3, ← hX2]; simp [Array.getElem?_setIfInBounds, hX1s], hl1⟩
    | 2, hk => rw [List.getElem?_cons_succ, List.getElem?_cons_succ, List.getElem?_cons_zero] at hk; rw [← Option.some.inj hk]
               exact ⟨l2, by rw [← hX3]; simp [Array.getElem?_setIfInBounds, hX2s], hl2⟩
    | 3, hk => rw [List.getElem?_cons_succ, List.getElem?_cons_succ, List.getElem?_cons_succ, List.getElem?_cons_zero] at hk; rw [← Option.some.inj hk]
               exact ⟨l3, by simp [Array.getElem?_setIfInBounds, hX3s], hl3⟩
    | k + 4, hk => simp at hk

end TJ.MiniC.Hoare
