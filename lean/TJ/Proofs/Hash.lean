/-
  TJ.Proofs.Hash — the streaming hash state machine refines "absorb the concatenation
  in 16-byte blocks, eagerly, keeping < 16 pending bytes".  The compression function
  is never unfolded: everything here holds for any compression function.
-/
import TJ.Impl.Hash
namespace TJ

/-- the part of the hash state the digest depends on besides the pending bytes: L and ~R -/
structure Core where
  s : W4
  k0 : UInt32
  k1 : UInt32
  k2 : UInt32
  k3 : UInt32
  deriving DecidableEq, Repr

def HState.core (h : HState) : Core := ⟨h.s, h.k0, h.k1, h.k2, h.k3⟩

/-- the pending (not yet compressed) bytes -/
def HState.pend (h : HState) : Bytes := h.block.take h.posn

/-- `compress` as a function of (L, ~R) and the first 16 block bytes only -/
def compressCore (c : Core) (blk : Bytes) (domain : UInt32) : Core :=
  let h : HState := { s := c.s, k0 := c.k0, k1 := c.k1, k2 := c.k2, k3 := c.k3, block := blk.take 16, posn := 0, tail := [] }
  (h.compress domain).core

theorem loadAt_take16 (b : Bytes) (off : Nat) (h : off + 4 ≤ 16) : loadAt (b.take 16) off = loadAt b off := by
  unfold loadAt
  have e : ∀ i, i < 16 → (b.take 16).getD i 0 = b.getD i 0 := by
    intro i hi
    simp only [List.getD_eq_getElem?_getD, List.getElem?_take, hi, if_true]
  rw [e off (by omega), e (off+1) (by omega), e (off+2) (by omega), e (off+3) (by omega)]

theorem compress_core (h : HState) (d : UInt32) : (h.compress d).core = compressCore h.core h.block d := by
  simp only [compressCore, HState.compress, HState.core,
    loadAt_take16 h.block 0 (by omega), loadAt_take16 h.block 4 (by omega),
    loadAt_take16 h.block 8 (by omega), loadAt_take16 h.block 12 (by omega)]

theorem compress_block_length (h : HState) (d : UInt32) : (h.compress d).block.length = 16 := by
  simp [HState.compress, store32]
theorem compress_posn (h : HState) (d : UInt32) : (h.compress d).posn = h.posn := rfl
theorem compress_tail (h : HState) (d : UInt32) : (h.compress d).tail = h.tail := rfl

theorem compressCore_take (c : Core) (blk : Bytes) (d : UInt32) :
    compressCore c (blk.take 16) d = compressCore c blk d := by
  simp [compressCore, List.take_take]

/-- absorb `data` in 16-byte blocks, eagerly; returns the core and the < 16 remaining bytes -/
def absorb16 (c : Core) (data : Bytes) : Core × Bytes :=
  if 16 ≤ data.length then absorb16 (compressCore c data 0) (data.drop 16) else (c, data)
termination_by data.length
decreasing_by simp; omega

theorem absorb16_short (c : Core) (data : Bytes) (h : data.length < 16) : absorb16 c data = (c, data) := by
  rw [absorb16]; simp; omega

theorem absorb16_long (c : Core) (data : Bytes) (h : 16 ≤ data.length) :
    absorb16 c data = absorb16 (compressCore c data 0) (data.drop 16) := by
  rw [absorb16]; simp [h]

theorem absorb16_rem_lt (c : Core) (data : Bytes) : (absorb16 c data).2.length < 16 := by
  fun_induction absorb16 c data with
  | case1 c data h ih => exact ih
  | case2 c data h => simpa using h

/-- absorbing a concatenation = absorbing the first part, then (remainder ++ second part) -/
theorem absorb16_append (c : Core) (a b : Bytes) :
    absorb16 c (a ++ b) = absorb16 (absorb16 c a).1 ((absorb16 c a).2 ++ b) := by
  fun_induction absorb16 c a with
  | case1 c a h ih =>
    have h2 : 16 ≤ (a ++ b).length := by simp; omega
    rw [absorb16_long c (a ++ b) h2]
    have e1 : compressCore c (a ++ b) 0 = compressCore c a 0 := by
      rw [← compressCore_take c (a ++ b), ← compressCore_take c a, List.take_append_of_le_length h]
    have e2 : (a ++ b).drop 16 = a.drop 16 ++ b := List.drop_append_of_le_length h
    rw [e1, e2, ih]
  | case2 c a h => rfl

def HState.Inv (h : HState) : Prop := h.posn < 16 ∧ h.block.length = 16

theorem writeAt_length (dst : Bytes) (off : Nat) (src : Bytes) (h : off + src.length ≤ dst.length) :
    (writeAt dst off src).length = dst.length := by
  simp [writeAt]; omega

theorem writeAt_take (dst : Bytes) (off : Nat) (src : Bytes) (h : off + src.length ≤ dst.length) :
    (writeAt dst off src).take (off + src.length) = dst.take off ++ src := by
  unfold writeAt
  have h1 : (dst.take off ++ src).length = off + src.length := by simp; omega
  rw [← h1, List.take_left']
  rfl

theorem writeAt_full (dst : Bytes) (off : Nat) (src : Bytes) (h : off + src.length = dst.length) :
    writeAt dst off src = dst.take off ++ src := by
  unfold writeAt
  rw [List.drop_eq_nil_of_le (by omega)]; simp

/-- what `blocks` does on a state with `posn = 0` -/
theorem blocks_spec (h : HState) (inp : Bytes) (hp : h.posn = 0) (hb : h.block.length = 16) :
    (h.blocks inp).core = (absorb16 h.core inp).1 ∧ (h.blocks inp).pend = (absorb16 h.core inp).2 ∧
    (h.blocks inp).Inv ∧ (h.blocks inp).tail = h.tail := by
  fun_induction HState.blocks h inp with
  | case1 h inp hl ih =>
    have hp' : ({ h with block := inp.take 16 }.compress 0).posn = 0 := hp
    have hb' : ({ h with block := inp.take 16 }.compress 0).block.length = 16 := compress_block_length _ _
    have := ih hp' hb'
    rw [absorb16_long _ _ hl]
    have ec : ({ h with block := inp.take 16 }.compress 0).core = compressCore h.core inp 0 := by
      rw [compress_core]; exact compressCore_take _ _ _
    rw [ec] at this
    exact this
  | case2 h inp hl hpos =>
    have hl' : inp.length < 16 := by omega
    rw [absorb16_short _ _ hl']
    refine ⟨rfl, ?_, ⟨?_, ?_⟩, by first | rfl | trivial⟩
    · show (writeAt h.block 0 inp).take inp.length = inp
      have := writeAt_take h.block 0 inp (by omega)
      simpa using this
    · show inp.length < 16; exact hl'
    · show (writeAt h.block 0 inp).length = 16
      rw [writeAt_length _ _ _ (by omega)]; exact hb
  | case3 h inp hl hpos =>
    have : inp = [] := by
      cases inp with
      | nil => rfl
      | cons x xs => simp at hpos
    subst this
    rw [absorb16_short _ _ (by simp)]
    refine ⟨rfl, ?_, ⟨?_, hb⟩, rfl⟩
    · simp [HState.pend, hp]
    · rw [hp]; omega

/-- `update` absorbs (pending ++ input) -/
theorem update_spec (h : HState) (inp : Bytes) (hi : h.Inv) :
    (h.update inp).core = (absorb16 h.core (h.pend ++ inp)).1 ∧
    (h.update inp).pend = (absorb16 h.core (h.pend ++ inp)).2 ∧
    (h.update inp).Inv ∧ (h.update inp).tail = h.tail := by
  obtain ⟨hp, hb⟩ := hi
  have hpl : h.pend.length = h.posn := by simp [HState.pend]; omega
  unfold HState.update
  by_cases h0 : 0 < h.posn
  · simp only [h0, if_true]
    by_cases hs : 16 - h.posn > inp.length
    · simp only [hs, if_true]
      have hl : (h.pend ++ inp).length < 16 := by simp [hpl]; omega
      rw [absorb16_short _ _ hl]
      refine ⟨rfl, ?_, ⟨?_, ?_⟩, by first | rfl | trivial⟩
      · show (writeAt h.block h.posn inp).take (h.posn + inp.length) = h.block.take h.posn ++ inp
        exact writeAt_take _ _ _ (by omega)
      · show h.posn + inp.length < 16; omega
      · show (writeAt h.block h.posn inp).length = 16
        rw [writeAt_length _ _ _ (by omega)]; exact hb
    · simp only [hs, if_false]
      have hle : 16 - h.posn ≤ inp.length := by omega
      have hfull : writeAt h.block h.posn (inp.take (16 - h.posn)) = h.pend ++ inp.take (16 - h.posn) := by
        apply writeAt_full; simp; omega
      have hlong : 16 ≤ (h.pend ++ inp).length := by simp [hpl]; omega
      rw [absorb16_long _ _ hlong]
      have e16 : (h.pend ++ inp).take 16 = h.pend ++ inp.take (16 - h.posn) := by
        rw [List.take_append, hpl]
        congr 1
        exact List.take_of_length_le (by omega)
      have ed : (h.pend ++ inp).drop 16 = inp.drop (16 - h.posn) := by
        rw [List.drop_append, hpl]
        rw [List.drop_eq_nil_of_le (by omega)]; simp
      have ec : ({ h with block := writeAt h.block h.posn (inp.take (16 - h.posn)) }.compress 0).core
          = compressCore h.core (h.pend ++ inp) 0 := by
        rw [compress_core, hfull, ← compressCore_take _ (h.pend ++ inp), e16]
        rfl
      have := blocks_spec { ({ h with block := writeAt h.block h.posn (inp.take (16 - h.posn)) }.compress 0) with posn := 0 }
        (inp.drop (16 - h.posn)) rfl (compress_block_length _ 0)
      rw [ed]
      have ec' : HState.core { ({ h with block := writeAt h.block h.posn (inp.take (16 - h.posn)) }.compress 0) with posn := 0 }
          = compressCore h.core (h.pend ++ inp) 0 := ec
      rw [ec'] at this
      exact this
  · simp only [h0, if_false]
    have hp0 : h.posn = 0 := by omega
    have : h.pend = [] := by simp [HState.pend, hp0]
    rw [this, List.nil_append]
    exact blocks_spec h inp hp0 hb

/-- the digest as a function of (core, pending bytes) only -/
def finishCore (c : Core) (pend : Bytes) : Bytes :=
  let c' := compressCore c (pend ++ [0x01] ++ zeros (15 - pend.length)) 2
  store32 c'.s.a ++ store32 c'.s.b ++ store32 c'.s.c ++ store32 c'.s.d ++
  store32 (~~~ c'.k0) ++ store32 (~~~ c'.k1) ++ store32 (~~~ c'.k2) ++ store32 (~~~ c'.k3)

theorem finalize_spec (h : HState) (hi : h.Inv) : h.finalize.1 = finishCore h.core h.pend := by
  obtain ⟨hp, hb⟩ := hi
  have hpl : h.pend.length = h.posn := by simp [HState.pend]; omega
  have hblk : writeAt (writeAt h.block h.posn [0x01]) (h.posn + 1) (zeros (16 - (h.posn + 1)))
      = h.pend ++ [0x01] ++ zeros (15 - h.pend.length) := by
    have l1 : (writeAt h.block h.posn [0x01]).length = 16 := by rw [writeAt_length _ _ _ (by simp; omega)]; exact hb
    rw [writeAt_full _ _ _ (by simp [zeros, l1]; omega)]
    have := writeAt_take h.block h.posn [0x01] (by simp; omega)
    simp only [List.length_singleton] at this
    rw [this, hpl]
    have : 16 - (h.posn + 1) = 15 - h.posn := by omega
    rw [this]; rfl
  simp only [HState.finalize, finishCore]
  have ec := compress_core { h with block := writeAt (writeAt h.block h.posn [0x01]) (h.posn + 1) (zeros (16 - (h.posn + 1))) } 2
  simp only [hblk] at ec ⊢
  have e2 : HState.core { h with block := h.pend ++ [0x01] ++ zeros (15 - h.pend.length) } = h.core := rfl
  rw [e2] at ec
  rw [← ec]
  rfl

theorem init_inv (h : HState) : h.init.Inv := by simp [HState.Inv, HState.init, zeros]
theorem init_pend (h : HState) : h.init.pend = [] := by simp [HState.pend, HState.init]
theorem init_core (h h' : HState) : h.init.core = h'.init.core := rfl

/-- the core every message starts from -/
def core0 : Core := (HState.init default).core

/-- digest of a whole message, as a pure function (no state machine) -/
def hashPure (m : Bytes) : Bytes :=
  let r := absorb16 core0 m
  finishCore r.1 r.2

theorem hash_eq_hashPure (m : Bytes) : hash m = hashPure m := by
  unfold hash hashPure HState.fresh
  have hu := update_spec (HState.init { (default : HState) with tail := zeros 4 }) m (init_inv _)
  rw [finalize_spec _ hu.2.2.1, hu.1, hu.2.1, init_pend, List.nil_append]
  rfl

/-- folding `update` over any list of chunks absorbs (pending ++ concatenation) -/
theorem foldl_update_spec (cs : List Bytes) (h : HState) (hi : h.Inv) :
    (cs.foldl HState.update h).core = (absorb16 h.core (h.pend ++ cs.flatten)).1 ∧
    (cs.foldl HState.update h).pend = (absorb16 h.core (h.pend ++ cs.flatten)).2 ∧
    (cs.foldl HState.update h).Inv ∧ (cs.foldl HState.update h).tail = h.tail := by
  induction cs generalizing h with
  | nil =>
    simp only [List.foldl_nil, List.flatten_nil, List.append_nil]
    have hl : h.pend.length < 16 := by simp [HState.pend]; have := hi.1; omega
    rw [absorb16_short _ _ hl]; exact ⟨rfl, rfl, hi, by first | rfl | trivial⟩
  | cons c cs ih =>
    simp only [List.foldl_cons, List.flatten_cons]
    have hu := update_spec h c hi
    have := ih (h.update c) hu.2.2.1
    rw [hu.1, hu.2.1, hu.2.2.2] at this
    rw [← List.append_assoc, absorb16_append h.core (h.pend ++ c) cs.flatten]
    exact this

end TJ
