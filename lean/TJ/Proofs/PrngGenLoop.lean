import TJ.Proofs.PrngGenAdv
namespace TJ.MiniC.Hoare
open TJ TJ.MiniC TJ.MiniC.PermC TJ.Gen.MiniC

/-- what a completed `a; b` looks like -/
theorem seq_inv {prog : Program} {a b : Stmt} {env : Env} {st : St} {P : Sig → Env → St → Prop} (h : RunsTo prog (.seq a b) env st P) :
    RunsTo prog a env st (fun sig e s => (sig ≠ .normal ∧ P sig e s) ∨ (sig = .normal ∧ RunsTo prog b e s P)) := by
  obtain ⟨n, sig, e, s, hx, hp⟩ := h
  cases n with
  | zero => simp [exec] at hx
  | succ n =>
    rw [exec] at hx
    cases ha : exec prog n a env st with
    | ok g e1 s1 =>
      rw [ha] at hx
      cases g with
      | normal => exact ⟨n, .normal, e1, s1, ha, Or.inr ⟨rfl, n, sig, e, s, hx, hp⟩⟩
      | brk => cases hx; exact ⟨n, .brk, e, s, ha, Or.inl ⟨Sig.noConfusion, hp⟩⟩
      | ret v => cases hx; exact ⟨n, .ret v, e, s, ha, Or.inl ⟨Sig.noConfusion, hp⟩⟩
    | fault k l => rw [ha] at hx; cases hx
    | timeout => rw [ha] at hx; cases hx

/-- `(a; b); c` runs as `a; (b; c)` -/
theorem runs_seq_assoc {prog : Program} {a b c : Stmt} {env : Env} {st : St} {P : Sig → Env → St → Prop}
    (h : RunsTo prog (.seq (.seq a b) c) env st P) : RunsTo prog (.seq a (.seq b c)) env st P := by
  have h1 := seq_inv h
  have h2 := seq_inv (h1.weaken (fun _ _ _ x => x))
  refine runs_seq_cases (Q := fun e s => RunsTo prog (.seq b c) e s P) (h2.weaken ?_) (fun e s h => h)
  intro sig e s hx
  rcases hx with ⟨hne, hp⟩ | ⟨hn, hb⟩
  · rcases hp with ⟨_, hp⟩ | ⟨hn, _⟩
    · exact Or.inl ⟨hne, hp⟩
    · exact absurd hn hne
  · refine Or.inr ⟨hn, ?_⟩
    refine runs_seq_cases (Q := fun e' s' => RunsTo prog c e' s' P) (hb.weaken ?_) (fun e' s' h => h)
    intro sig' e' s' hy
    rcases hy with ⟨hne', hp'⟩ | ⟨hn', hc⟩
    · exact Or.inl ⟨hne', hp'⟩
    · exact Or.inr ⟨hn', hc⟩

theorem runs_seq_congr_right {prog : Program} {a b b' : Stmt} {env : Env} {st : St} {P : Sig → Env → St → Prop}
    (hb : ∀ e s, RunsTo prog b e s P → RunsTo prog b' e s P) (h : RunsTo prog (.seq a b) env st P) : RunsTo prog (.seq a b') env st P := by
  refine runs_seq_cases (Q := fun e s => RunsTo prog b' e s P) ((seq_inv h).weaken ?_) (fun e s h => h)
  intro sig e s hx
  rcases hx with ⟨hne, hp⟩ | ⟨hn, hr⟩
  · exact Or.inl ⟨hne, hp⟩
  · exact Or.inr ⟨hn, hb e s hr⟩

theorem genIter_eq : genIter = .ite (.bin .gt .u64 (.var 2) (.cast .u64 .i32 (.lit 0)))
    (.seq genReseedChk (.seq genLen (.seq (.call none idx_tinyjambu_hash [.var 5, .var 3, .lit 32]) (.seq genCopy
      (.seq (.call none idx_tinyjambu_hash_prefixed [.var 5, .cast .u8 .i32 (.lit 3), .var 3]) (.seq genCarry0 (.seq carryStmt (.seq genCount
        (.seq (.assign 1 (.bin .add .u64 (.var 1) (.var 4))) (.assign 2 (.bin .sub .u64 (.var 2) (.var 4)))))))))))) .brk := rfl

/-- one round of the block loop of `tinyjambu_prng_generate` -/
theorem gen_iter (G : GGeo) (mem0 : Array Block) (g : GS) (acc : Bytes) (r : Nat) (hr : 0 < r) {env : Env} {s : St} (gi : GI G mem0 g acc r env s) :
    RunsTo prog genIter env s (fun sig e' s' => sig = .normal ∧ GI G mem0 g.auto.block.2 (acc ++ g.auto.block.1.take (min 32 r)) (r - min 32 r) e' s') := by
  have hin := G.hin; have hltD := G.hltD; have hn := gi.hn; have hbd := G.hbd; have hG := G.hsz
  have hr64 : r < 18446744073709551616 := by rw [ptrBase_eq] at hltD; omega
  rw [genIter_eq]
  refine runs_ite_true 1 ?_ (by decide) ?_
  · simp only [evalE, gi.e2, reduceCtorEq, if_false, castVal_u64_i32_lit 0 (by decide), BinOp.needsPub2, BinOp.needsPub1, Bool.false_and, Bool.or_self,
      Bool.false_eq_true, binVal, Ty.signed, gt_iff_lt, hr, decide_true, b2n, if_true, Lab.join_pub_pub]
  refine runs_seq (gen_reseed_chk G mem0 g acc r (env := env) (s := { s with leak := .br true :: s.leak })
    ⟨gi.esz, gi.e0, gi.e1, gi.e2, gi.e3, gi.e5, gi.hn, gi.ent, gi.msz, gi.hP, gi.hH, gi.hD, gi.oth⟩) ?_
  intro e1 s1 gi1
  -- output
  refine runs_seq_congr_right (fun _ _ h => runs_seq_assoc h) (runs_seq_assoc (runs_seq (gen_out G mem0 g.auto acc r hr gi1) ?_))
  intro e2 s2 gj2
  -- advance
  refine runs_seq_congr_right (fun _ _ h => runs_seq_congr_right (fun _ _ h' => runs_seq_assoc h') (runs_seq_assoc h)) (runs_seq_assoc (runs_seq (gen_adv G mem0 g.auto _ acc.length r (min 32 r) gj2) ?_))
  intro e3 s3 gj3
  have hhl : (hash g.auto.V).length = 32 := finalize_length _
  have hacc : (acc ++ (hash g.auto.V).take (min 32 r)).length = acc.length + min 32 r := by rw [List.length_append, List.length_take, hhl]; omega
  have hp1 : (mkPtr G.bd (G.based + (G.doff + acc.length)) + min 32 r) % 18446744073709551616 = mkPtr G.bd (G.based + (G.doff + (acc ++ (hash g.auto.V).take (min 32 r)).length)) := by
    rw [ptr_off G.bd _ (min 32 r) (by omega) (by rw [ptrBase_eq] at *; omega), hacc, Nat.add_assoc, Nat.add_assoc]
  refine runs_seq (Q := fun e s' => e = setVar e3 1 (mkPtr G.bd (G.based + (G.doff + (acc ++ (hash g.auto.V).take (min 32 r)).length)), .pub) ∧ s' = s3) (runs_assign _ (by
    simp only [evalE, gj3.e1, gj3.e4, reduceCtorEq, if_false, BinOp.needsPub2, BinOp.needsPub1, Bool.false_and, Bool.or_self, Bool.false_eq_true, binVal, Ty.modulus, Lab.join_pub_pub, hp1]) ⟨rfl, rfl, rfl⟩) ?_
  intro e4 s4 ⟨he4, hs4⟩; rw [he4, hs4]
  refine runs_assign (r - min 32 r, .pub) (by
    simp only [evalE, get_set_ne _ _ _ _ (show ¬ 1 = 2 from by decide), get_set_ne _ _ _ _ (show ¬ 1 = 4 from by decide), gj3.e2, gj3.e4, reduceCtorEq, if_false, BinOp.needsPub2, BinOp.needsPub1,
      Bool.false_and, Bool.or_self, Bool.false_eq_true, binVal, Ty.modulus, Lab.join_pub_pub, sub64 r (min 32 r) (by omega) hr64 (by omega)]) ?_
  refine ⟨rfl, by simp only [size_setVar]; exact gj3.esz, by rw [get_set_ne _ _ _ _ (by decide), get_set_ne _ _ _ _ (by decide)]; exact gj3.e0,
    by rw [get_set_ne _ _ _ _ (by decide)]; exact get_set_eq _ _ _ (by rw [gj3.esz]; decide), get_set_eq _ _ _ (by rw [size_setVar, gj3.esz]; decide),
    by rw [get_set_ne _ _ _ _ (by decide), get_set_ne _ _ _ _ (by decide)]; exact gj3.e3, by rw [get_set_ne _ _ _ _ (by decide), get_set_ne _ _ _ _ (by decide)]; exact gj3.e5,
    by show (acc ++ (hash g.auto.V).take (min 32 r)).length + (r - min 32 r) = G.n; rw [hacc]; omega, gj3.ent, gj3.msz, gj3.hP, gj3.hH, gj3.hD, gj3.oth⟩

theorem gen_exit (G : GGeo) (mem0 : Array Block) (g : GS) (acc : Bytes) {env : Env} {s : St} (gi : GI G mem0 g acc 0 env s) :
    RunsTo prog genIter env s (fun sig e' s' => sig = .brk ∧ GI G mem0 g acc 0 e' s') := by
  rw [genIter_eq]
  refine runs_ite_false ?_ (runs_brk ⟨rfl, gi.esz, gi.e0, gi.e1, gi.e2, gi.e3, gi.e5, gi.hn, gi.ent, gi.msz, gi.hP, gi.hH, gi.hD, gi.oth⟩)
  simp only [evalE, gi.e2, reduceCtorEq, if_false, castVal_u64_i32_lit 0 (by decide), BinOp.needsPub2, BinOp.needsPub1, Bool.false_and, Bool.or_self,
    Bool.false_eq_true, binVal, Ty.signed, gt_iff_lt, Nat.lt_irrefl, decide_false, b2n, Lab.join_pub_pub]

theorem gsLoop_zero (g : GS) : g.loop 0 = ([], g) := by rw [GS.loop]; simp
theorem gsLoop_pos (g : GS) (size : Nat) (h : 0 < size) :
    g.loop size = (g.auto.block.1.take (min 32 size) ++ (g.auto.block.2.loop (size - min 32 size)).1, (g.auto.block.2.loop (size - min 32 size)).2) := by
  rw [GS.loop]; simp only [show ¬ size = 0 from by omega, if_false]

/-- the block loop of `tinyjambu_prng_generate` computes `GS.loop` -/
theorem gen_loop (G : GGeo) (mem0 : Array Block) :
    ∀ (n : Nat) (g : GS) (acc : Bytes) (r : Nat), r ≤ n → ∀ (env : Env) (s : St), GI G mem0 g acc r env s →
    RunsTo prog (.loop genIter) env s (fun sig e' s' => sig = .normal ∧ GI G mem0 (g.loop r).2 (acc ++ (g.loop r).1) 0 e' s')
  | n, g, acc, 0, _, env, s, gi => by
    rw [gsLoop_zero, List.append_nil]
    exact runs_loop_break ((gen_exit G mem0 g acc gi).weaken fun _ _ _ ⟨h, b⟩ => ⟨h, rfl, b⟩)
  | 0, g, acc, r + 1, h, env, s, gi => by omega
  | n + 1, g, acc, r + 1, h, env, s, gi => by
    rw [gsLoop_pos g (r + 1) (by omega), ← List.append_assoc]
    refine runs_loop_continue (gen_iter G mem0 g acc (r + 1) (by omega) gi) ?_
    intro e s' gi'
    exact gen_loop G mem0 n _ _ (r + 1 - min 32 (r + 1)) (by omega) e s' gi'

end TJ.MiniC.Hoare
