/-
  TJ.Proofs.AeadEncStmt — the bodies of tinyjambu_{128,192,256}_aead_encrypt as regenerated, written as one statement function of the
  number of key words and the indices of the functions called; the three `rfl` checks tie it to the regenerated terms.
-/
import TJ.Proofs.AeadTag
namespace TJ.MiniC.Hoare
open TJ TJ.MiniC TJ.MiniC.PermC TJ.Gen.MiniC

/-! ### statement shapes of `tinyjambu_{128,192,256}_aead_encrypt` (`nk` key words; temporaries start at `v = 11 + 5 nk`) -/

def clenStmt : Stmt := seqs [.assign 10 (.var 1), .store .u64 (.var 10) (.bin .add .u64 (.var 3) (.cast .u64 .i32 (.lit 8)))]

def keyWordStmt (sv t0 : Nat) (j : Nat) : Stmt :=
  seqs (.assign (t0 + 5 * j) (.bin .add .u64 (.var sv) (.lit (16 + 4 * j))) ::
    (loadsOf [(t0 + 1 + 5 * j, 4 * j + 3), (t0 + 2 + 5 * j, 4 * j + 2), (t0 + 3 + 5 * j, 4 * j + 1), (t0 + 4 + 5 * j, 4 * j)] 7 ++
      [.store .u32 (.var (t0 + 5 * j)) (.un .bnot .u32 (e32 (t0 + 1 + 5 * j) (t0 + 2 + 5 * j) (t0 + 3 + 5 * j) (t0 + 4 + 5 * j)))]))

def encLoopBody (pidx pk v : Nat) : Stmt :=
  .ite (.bin .ge .u64 (.var 3) (.cast .u64 .i32 (.lit 4)))
    (seqs [xorPub 1 v (v + 1) (rc 80) 8, .call none pidx [.var 8, rc pk],
           seqs (loadsOf [(v + 2, 3), (v + 3, 2), (v + 4, 1), (v + 5, 0)] 2 ++ [.assign 9 (e32 (v + 2) (v + 3) (v + 4) (v + 5))]),
           xorPub 3 (v + 6) (v + 7) (.var 9) 8,
           seqs [.load (v + 8) .u32 (addrS 2 8), .assign 9 (.bin .bxor .u32 (.var 9) (.var (v + 8)))],
           seqs [.assign (v + 9) (.var 9), byteStmtV 0 (v + 10) 0 (v + 9) 0, byteStmtV 0 (v + 11) 1 (v + 9) 1, byteStmtV 0 (v + 12) 2 (v + 9) 2,
                 byteStmtV 0 (v + 13) 3 (v + 9) 3],
           .assign 0 (.bin .add .u64 (.var 0) (.lit 4)), .assign 2 (.bin .add .u64 (.var 2) (.lit 4)),
           .assign 3 (.bin .sub .u64 (.var 3) (.cast .u64 .i32 (.lit 4)))])
    .brk

def encTail (pidx pk v : Nat) : Stmt :=
  .ite (.bin .eq .u64 (.var 3) (.cast .u64 .i32 (.lit 1)))
    (seqs [xorPub 1 (v + 14) (v + 15) (rc 80) 8, .call none pidx [.var 8, rc pk],
           seqs (loadsOf [(v + 16, 0)] 2 ++ [.assign 9 (e8 (v + 16))]),
           xorPub 3 (v + 17) (v + 18) (.var 9) 8, xorPub 1 (v + 19) (v + 20) (rc 1) 8,
           seqs [.assign (v + 21) (.var 0), .load (v + 22) .u32 (addrS 2 8),
                 .store .u8 (.var (v + 21)) (.cast .u8 .u32 (.bin .bxor .u32 (.var (v + 22)) (.var 9)))]])
    (.ite (.bin .eq .u64 (.var 3) (.cast .u64 .i32 (.lit 2)))
      (seqs [xorPub 1 (v + 23) (v + 24) (rc 80) 8, .call none pidx [.var 8, rc pk],
             seqs (loadsOf [(v + 25, 1), (v + 26, 0)] 2 ++ [.assign 9 (e16 (v + 25) (v + 26))]),
             xorPub 3 (v + 27) (v + 28) (.var 9) 8, xorPub 1 (v + 29) (v + 30) (rc 2) 8,
             seqs [.load (v + 31) .u32 (addrS 2 8), .assign 9 (.bin .bxor .u32 (.var 9) (.var (v + 31)))],
             byteStmtV 0 (v + 32) 0 9 0, byteStmtV 0 (v + 33) 1 9 1])
      (.ite (.bin .eq .u64 (.var 3) (.cast .u64 .i32 (.lit 3)))
        (seqs [xorPub 1 (v + 34) (v + 35) (rc 80) 8, .call none pidx [.var 8, rc pk],
               seqs (loadsOf [(v + 36, 1), (v + 37, 0), (v + 38, 2)] 2 ++ [.assign 9 (e24 (v + 36) (v + 37) (v + 38))]),
               xorPub 3 (v + 39) (v + 40) (.var 9) 8, xorPub 1 (v + 41) (v + 42) (rc 3) 8,
               seqs [.load (v + 43) .u32 (addrS 2 8), .assign 9 (.bin .bxor .u32 (.var 9) (.var (v + 43)))],
               byteStmtV 0 (v + 44) 0 9 0, byteStmtV 0 (v + 45) 1 9 1, byteStmtV 0 (v + 46) 2 9 2])
        .skip))

def encStmt (nk pidx pk sidx aidx gidx : Nat) : Stmt :=
  seqs (clenStmt :: ((List.range' 0 nk).map (keyWordStmt 8 11) ++
    [.call none sidx [.var 8, .var 6, .cast .u8 .i32 (.lit 16)],
     .call none aidx [.var 8, .var 4, .var 5, .cast .u8 .i32 (.lit 48), .cast .u32 .i32 (.lit 5)],
     .loop (encLoopBody pidx pk (11 + 5 * nk)), encTail pidx pk (11 + 5 * nk),
     .call none gidx [.var 8, .bin .add .u64 (.var 0) (.var 3)]]))

theorem enc128_eq : f_tinyjambu_128_aead_encrypt.body = encStmt 4 42 8 53 12 17 := rfl
theorem enc192_eq : f_tinyjambu_192_aead_encrypt.body = encStmt 6 43 9 54 13 18 := rfl
theorem enc256_eq : f_tinyjambu_256_aead_encrypt.body = encStmt 8 44 10 55 14 19 := rfl
end TJ.MiniC.Hoare
