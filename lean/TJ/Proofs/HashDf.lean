import TJ.Proofs.HashDfCore
import TJ.Impl.Prng
namespace TJ.MiniC.Hoare
open TJ TJ.MiniC TJ.MiniC.PermC TJ.Gen.MiniC

theorem prog_hash_df : prog[idx_tinyjambu_hash_df]? = some f_tinyjambu_hash_df := by
  simp only [prog, idx_tinyjambu_hash_df, List.getElem?_cons_succ, List.getElem?_cons_zero]

/-- `tinyjambu_hash_update` as a call with both conclusions: the state object represents `h.update data`, other blocks keep their values, and
    labels outside the data window do not rise -/
theorem update_callK (env : Env) (st : St) (es ei el : Expr) (bs bi : Nat) (X XI : Array LByte) (baseS basei off : Nat) (h : HState) (data : Bytes)
    (hes : evalE env es = .ok (mkPtr bs baseS, .pub)) (hei : evalE env ei = .ok (mkPtr bi (basei + off), .pub))
    (hel : evalE env el = .ok (data.length, .pub))
    (hS : st.mem[bs]? = some ⟨X, baseS⟩) (hI : st.mem[bi]? = some ⟨XI, basei⟩) (hne : bi ≠ bs)
    (hrep : HObjV X h) (halS : baseS % 4 = 0) (hltS : baseS + X.size < ptrBase) (hltI : basei + XI.size < ptrBase)
    (hbs30 : bs < 2 ^ 30) (hbi30 : bi < 2 ^ 30) (hsz : st.mem.size + 2 < 2 ^ 30) (hd : BytesV XI off data) :
    RunsTo prog (.call none idx_tinyjambu_hash_update [es, ei, el]) env st (fun sig e s => sig = .normal ∧ EnvLe e env ∧ s.ent = st.ent ∧ s.mem.size = st.mem.size ∧
      (∃ X', s.mem[bs]? = some ⟨X', baseS⟩ ∧ X'.size = X.size ∧ HObjV X' (h.update data)) ∧
      ∀ j, j ≠ bs → ORel (KeepW (fun _ => False) (fun q => j = bi ∧ off ≤ q ∧ q < off + data.length)) s.mem[j]? st.mem[j]?) := by
  refine ((update_callV prog _ prog_update prog_compress prog_p256 env st es ei el bs bi X XI baseS basei off h data hes hei hel hS hI hne hrep halS hltS hltI hbs30 hbi30 hsz
    hd.2 hd.1).and (update_keep prog _ prog_update prog_compress prog_p256 env st es ei el bs bi X XI baseS basei off h data hes hei hel hS hI hne hrep halS hltS hltI hbs30 hbi30 hsz
    hd.2 hd.1)).weaken ?_
  intro sig e s ⟨⟨g1, g2, g3, g4, g5, blk', g6, g7, g8, g9⟩, k⟩
  refine ⟨g1, g2, g3, g4, ⟨blk'.bytes, by rw [g6, ← g7], g8, g9⟩, fun j hj => okeep_of_eqv_keepB (g5 j hj) (k j hj) _⟩


theorem castVal_i32_u8' (x : UInt8) : castVal .i32 .u8 x.toNat = x.toNat := by
  simp only [castVal, Ty.signed, Ty.modulus, Bool.false_eq_true, if_false]
  exact Nat.mod_eq_of_lt (by have := x.toNat_lt; omega)

/-- an environment below an all-public one is that environment -/
theorem envLe_allpub {e E : Env} (hp : ∀ (i : Nat) (v : LVal), E[i]? = some v → v.2 = Lab.pub) (h : EnvLe e E) : e = E := by
  apply Array.ext_getElem?
  intro i
  have hi := h i
  cases hE : E[i]? with
  | none => rw [hE] at hi; cases he : e[i]? with
    | none => rfl
    | some _ => rw [he] at hi; exact hi.elim
  | some v =>
    rw [hE] at hi
    cases he : e[i]? with
    | none => rw [he] at hi; exact hi.elim
    | some x =>
      rw [he] at hi
      obtain ⟨a, l⟩ := x; obtain ⟨b, m⟩ := v
      have e1 : a = b := hi.1
      have hm : m = Lab.pub := hp i _ hE
      have e2 : l = .pub := by have := hi.2; simp only [hm] at this; exact Lab.le_pub this
      rw [e1, e2, hm]

/-- the block related by `KeepW` to a block of known shape -/
theorem okeep_block {O W : Nat → Prop} {m : Array Block} {j : Nat} {Y : Array LByte} {base : Nat} (h : ORel (KeepW O W) m[j]? (some ⟨Y, base⟩)) :
    ∃ Z, m[j]? = some ⟨Z, base⟩ ∧ Z.size = Y.size ∧ KeepW O W ⟨Z, base⟩ ⟨Y, base⟩ := by
  cases hb : m[j]? with
  | none => rw [hb] at h; exact h.elim
  | some blk =>
    rw [hb] at h
    have h1 : blk.base = base := h.1
    exact ⟨blk.bytes, by rw [← h1], h.2.1, by rw [← h1] at h ⊢; exact h⟩

theorem update_nil (h : HState) (hp : h.posn < 16) : h.update [] = h := by
  unfold HState.update
  by_cases h0 : 0 < h.posn
  · simp only [h0, if_true, List.length_nil, gt_iff_lt, show 0 < 16 - h.posn from by omega, writeAt_nil, Nat.add_zero]
  · simp only [h0, if_false]
    rw [HState.blocks]
    simp

theorem hashDf_eq (marker : UInt8) (V inp : Bytes) (p : HState) (hdr : Bytes)
    (hh : hdr = if marker.toNat ≠ 255 then [1, 0, 0, 1, 0, marker] else [1, 0, 0, 1, 0]) :
    ((((p.init.update hdr).update V).update inp).finalize).1 = hashDf marker V inp := by
  rw [init_update3_finalize, hh]
  unfold hashDf
  by_cases hm : marker = 0xFF
  · subst hm; simp
  · have : marker.toNat ≠ 255 := fun h => hm (UInt8.toNat_inj.mp h)
    simp [this, hm]

/-- **`tinyjambu_hash_df(out, marker, V, in, inlen)`** on the regenerated term: the 32 bytes at `out` become the model's `hashDf marker V inp`;
    everything else keeps its value, and no label rises outside the windows read (`V`, `in`) and written (`out`).  `in` may be any pointer when `inlen = 0`. -/
theorem hash_df_call (env : Env) (st : St) (eo em ev ei el : Expr) (bo bv bi : Nat) (XO XV XI : Array LByte) (baseo oo basev voff basei ioff pin : Nat)
    (marker : UInt8) (V inp : Bytes)
    (heo : evalE env eo = .ok (mkPtr bo (baseo + oo), .pub)) (hem : evalE env em = .ok (marker.toNat, .pub)) (hev : evalE env ev = .ok (mkPtr bv (basev + voff), .pub))
    (hei : evalE env ei = .ok (pin, .pub)) (hel : evalE env el = .ok (inp.length, .pub))
    (hO : st.mem[bo]? = some ⟨XO, baseo⟩) (hV : st.mem[bv]? = some ⟨XV, basev⟩) (hVd : BytesV XV voff V) (hVl : V.length = 32)
    (hI : inp = [] ∨ (st.mem[bi]? = some ⟨XI, basei⟩ ∧ BytesV XI ioff inp ∧ pin = mkPtr bi (basei + ioff) ∧ basei + XI.size < ptrBase))
    (hltO : baseo + XO.size < ptrBase) (hltV : basev + XV.size < ptrBase) (hinO : oo + 32 ≤ XO.size) (hsz : st.mem.size + 5 < 2 ^ 30) :
    RunsTo prog (.call none idx_tinyjambu_hash_df [eo, em, ev, ei, el]) env st (fun sig e s => sig = .normal ∧ e = env ∧ s.ent = st.ent ∧ s.mem.size = st.mem.size ∧
      (∃ XO', s.mem[bo]? = some ⟨XO', baseo⟩ ∧ BytesV XO' oo (hashDf marker V inp)) ∧
      ∀ j, ORel (KeepW (fun q => j = bo ∧ oo ≤ q ∧ q < oo + 32) (fun q => (j = bv ∧ voff ≤ q ∧ q < voff + 32) ∨ (j = bi ∧ ioff ≤ q ∧ q < ioff + inp.length)))
        s.mem[j]? st.mem[j]?) := by
  have hboN := mem_lt hO; have hbvN := mem_lt hV
  let vs : List LVal := [(mkPtr bo (baseo + oo), .pub), (marker.toNat, .pub), (mkPtr bv (basev + voff), .pub), (pin, .pub), (inp.length, .pub)]
  refine runs_call_none f_tinyjambu_hash_df vs prog_hash_df (by simp only [evalArgs, heo, hem, hev, hei, hel]; rfl) rfl ?_
  have hent : enterFun f_tinyjambu_hash_df vs st.mem = (#[(mkPtr bo (baseo + oo), .pub), (marker.toNat, .pub), (mkPtr bv (basev + voff), .pub), (pin, .pub), (inp.length, .pub),
      (mkPtr st.mem.size 0, .pub), (mkPtr (st.mem.size + 1) 0, .pub)],
      (st.mem.push ⟨Array.replicate 6 (0, .undef), 0⟩).push ⟨Array.replicate 56 (0, .undef), 0⟩) := by
    simp only [enterFun, allocLocals, f_tinyjambu_hash_df, Array.size_push]; rfl
  rw [df_body_eq, hent]
  generalize hm1 : (st.mem.push ⟨Array.replicate 6 (0, .undef), 0⟩).push ⟨Array.replicate 56 (0, .undef), 0⟩ = mem1
  have hm1sz : mem1.size = st.mem.size + 2 := by rw [← hm1]; simp only [Array.size_push]
  have hm1lt : ∀ j, j < st.mem.size → mem1[j]? = st.mem[j]? := by
    intro j hj; rw [← hm1, Array.getElem?_push, Array.getElem?_push]
    simp only [Array.size_push, show ¬ j = st.mem.size + 1 from by omega, show ¬ j = st.mem.size from by omega, if_false]
  have hm1a : mem1[st.mem.size]? = some ⟨Array.replicate 6 (0, .undef), 0⟩ := by
    rw [← hm1, Array.getElem?_push, Array.getElem?_push]
    simp only [Array.size_push, show ¬ st.mem.size = st.mem.size + 1 from by omega, if_false, if_true]
  have hm1b : mem1[st.mem.size + 1]? = some ⟨Array.replicate 56 (0, .undef), 0⟩ := by
    rw [← hm1, Array.getElem?_push, if_pos (by simp only [Array.size_push])]
  generalize hE : (#[(mkPtr bo (baseo + oo), Lab.pub), (marker.toNat, Lab.pub), (mkPtr bv (basev + voff), Lab.pub), (pin, Lab.pub), (inp.length, Lab.pub),
      (mkPtr st.mem.size 0, Lab.pub), (mkPtr (st.mem.size + 1) 0, Lab.pub)] : Env) = E
  have e_0 : E[0]? = some (mkPtr bo (baseo + oo), .pub) := by rw [← hE]; rfl
  have e_1 : E[1]? = some (marker.toNat, .pub) := by rw [← hE]; rfl
  have e_2 : E[2]? = some (mkPtr bv (basev + voff), .pub) := by rw [← hE]; rfl
  have e_3 : E[3]? = some (pin, .pub) := by rw [← hE]; rfl
  have e_4 : E[4]? = some (inp.length, .pub) := by rw [← hE]; rfl
  have e_5 : E[5]? = some (mkPtr st.mem.size 0, .pub) := by rw [← hE]; rfl
  have e_6 : E[6]? = some (mkPtr (st.mem.size + 1) 0, .pub) := by rw [← hE]; rfl
  have ev6 : evalE E (.var 6) = .ok (mkPtr (st.mem.size + 1) 0, .pub) := by simp only [evalE, e_6, reduceCtorEq, if_false]
  have ev5 : evalE E (.var 5) = .ok (mkPtr st.mem.size (0 + 0), .pub) := by simp only [evalE, e_5, reduceCtorEq, if_false]
  unfold dfBody
  simp only [seqs]
  -- header
  refine runs_seq (df_header (env := E) (st := { st with mem := mem1 }) st.mem.size marker (by omega) e_1 e_5 hm1a) ?_
  intro e1 s1 ⟨he1, hent1, hsz1, hoth1, hH1⟩
  rw [he1]
  have hent1 : s1.ent = st.ent := hent1
  have hsz1 : s1.mem.size = st.mem.size + 2 := by rw [hsz1]; exact hm1sz
  have hs1lt : ∀ j, j < st.mem.size → s1.mem[j]? = st.mem[j]? := fun j hj => by rw [hoth1 j (by omega)]; exact hm1lt j hj
  have hS1 : s1.mem[st.mem.size + 1]? = some ⟨Array.replicate 56 (0, .undef), 0⟩ := by rw [hoth1 _ (by omega)]; exact hm1b
  -- init
  refine runs_seq (init_call prog _ prog_init E s1 (.var 6) (st.mem.size + 1) 0 _ ev6 hS1 (by simp) (by decide) (by simp [ptrBase]) (by omega) HState.fresh) ?_
  intro e2 s2 ⟨he2, hent2, hsz2, hoth2, X2, hX2, hX2s, ho2⟩
  rw [he2]
  have hX2s' : X2.size = 56 := by rw [hX2s]; simp
  have hH2 : s2.mem[st.mem.size]? = some ⟨#[(1, .pub), (0, .pub), (0, .pub), (1, .pub), (0, .pub), (marker, .pub)], 0⟩ := by rw [hoth2 _ (by omega)]; exact hH1
  -- the header, 6 or 5 bytes
  generalize hhdr : (if marker.toNat ≠ 255 then [1, 0, 0, 1, 0, marker] else [1, 0, 0, 1, 0] : Bytes) = hdr
  have hhd : BytesV #[((1 : UInt8), Lab.pub), (0, .pub), (0, .pub), (1, .pub), (0, .pub), (marker, .pub)] 0 hdr := by
    rw [← hhdr]
    by_cases hmk : marker.toNat ≠ 255
    · rw [if_pos hmk]
      refine ⟨by simp, fun k b hk => ?_⟩
      match k, hk with
      | 0, hk => exact ⟨.pub, by simp at hk; subst hk; rfl, by decide⟩
      | 1, hk => exact ⟨.pub, by simp at hk; subst hk; rfl, by decide⟩
      | 2, hk => exact ⟨.pub, by simp at hk; subst hk; rfl, by decide⟩
      | 3, hk => exact ⟨.pub, by simp at hk; subst hk; rfl, by decide⟩
      | 4, hk => exact ⟨.pub, by simp at hk; subst hk; rfl, by decide⟩
      | 5, hk => exact ⟨.pub, by simp at hk; subst hk; rfl, by decide⟩
      | k + 6, hk => simp at hk
    · rw [if_neg hmk]
      refine ⟨by simp, fun k b hk => ?_⟩
      match k, hk with
      | 0, hk => exact ⟨.pub, by simp at hk; subst hk; rfl, by decide⟩
      | 1, hk => exact ⟨.pub, by simp at hk; subst hk; rfl, by decide⟩
      | 2, hk => exact ⟨.pub, by simp at hk; subst hk; rfl, by decide⟩
      | 3, hk => exact ⟨.pub, by simp at hk; subst hk; rfl, by decide⟩
      | 4, hk => exact ⟨.pub, by simp at hk; subst hk; rfl, by decide⟩
      | k + 5, hk => simp at hk
  have hupd := fun (L : List Ev) (el : Expr) (hel' : evalE E el = .ok (hdr.length, .pub)) => update_callK E { s2 with leak := L } (.var 6) (.var 5) el (st.mem.size + 1) st.mem.size X2 _ 0 0 0 (HState.init HState.fresh) hdr
    ev6 ev5 hel' hX2 hH2 (by omega) ho2 (by decide) (by rw [hX2s']; simp [ptrBase]) (by simp [ptrBase]) (by omega) (by omega) (by show s2.mem.size + 2 < _; rw [hsz2, hsz1]; omega) hhd
  refine runs_seq (Q := fun e s => EnvLe e E ∧ s.ent = st.ent ∧ s.mem.size = st.mem.size + 2 ∧
      (∃ X', s.mem[st.mem.size + 1]? = some ⟨X', 0⟩ ∧ X'.size = 56 ∧ HObjV X' ((HState.init HState.fresh).update hdr)) ∧
      ∀ j, j < st.mem.size → ORel (KeepW (fun _ => False) (fun _ => False)) s.mem[j]? st.mem[j]?) ?_ ?_
  · have hfin : ∀ (sig : Sig) (e : Env) (s : St), (sig = .normal ∧ EnvLe e E ∧ s.ent = s2.ent ∧ s.mem.size = s2.mem.size ∧
        (∃ X', s.mem[st.mem.size + 1]? = some ⟨X', 0⟩ ∧ X'.size = X2.size ∧ HObjV X' ((HState.init HState.fresh).update hdr)) ∧
        ∀ j, j ≠ st.mem.size + 1 → ORel (KeepW (fun _ => False) (fun q => j = st.mem.size ∧ 0 ≤ q ∧ q < 0 + hdr.length)) s.mem[j]? s2.mem[j]?) →
        sig = .normal ∧ EnvLe e E ∧ s.ent = st.ent ∧ s.mem.size = st.mem.size + 2 ∧
        (∃ X', s.mem[st.mem.size + 1]? = some ⟨X', 0⟩ ∧ X'.size = 56 ∧ HObjV X' ((HState.init HState.fresh).update hdr)) ∧
        ∀ j, j < st.mem.size → ORel (KeepW (fun _ => False) (fun _ => False)) s.mem[j]? st.mem[j]? := by
      intro sig e s ⟨g1, g2, g3, g4, ⟨X', g5, g6, g7⟩, g8⟩
      refine ⟨g1, g2, by rw [g3, hent2]; exact hent1, by rw [g4, hsz2]; exact hsz1, ⟨X', g5, by rw [g6]; exact hX2s', g7⟩, fun j hj => ?_⟩
      have := g8 j (by omega)
      rw [hoth2 j (by omega), hs1lt j hj] at this
      exact okeep_mono this (fun _ h => h) (fun q h => by omega)
    by_cases hmk : marker.toNat ≠ 255
    · have hl : hdr.length = 6 := by rw [← hhdr, if_pos hmk]; rfl
      refine runs_ite_true 1 ?_ (by decide) ?_
      · simp only [evalE, e_1, reduceCtorEq, if_false, castVal_i32_u8', BinOp.needsPub2, BinOp.needsPub1, Bool.false_and, Bool.or_self,
          Bool.false_eq_true, binVal, ne_eq, hmk, not_false_eq_true, decide_true, b2n, if_true, Lab.join_pub_pub]
      exact ((hupd _ (.cast .u64 .i32 (.lit 6)) (by simp only [evalE, castVal_u64_i32_lit 6 (by decide), hl])).weaken (fun sig e s h => hfin sig e s h))
    · have hl : hdr.length = 5 := by rw [← hhdr, if_neg hmk]; rfl
      refine runs_ite_false ?_ ?_
      · simp only [evalE, e_1, reduceCtorEq, if_false, castVal_i32_u8', BinOp.needsPub2, BinOp.needsPub1, Bool.false_and, Bool.or_self,
          Bool.false_eq_true, binVal, ne_eq, hmk, decide_false, b2n, Lab.join_pub_pub]
      exact ((hupd _ (.cast .u64 .i32 (.lit 5)) (by simp only [evalE, castVal_u64_i32_lit 5 (by decide), hl])).weaken (fun sig e s h => hfin sig e s h))
  intro e3 s3 ⟨hle3, hent3, hsz3, ⟨X3, hX3, hX3s, ho3⟩, hk3⟩
  have hEpub : ∀ (i : Nat) (v : LVal), E[i]? = some v → v.2 = Lab.pub := by
    intro i v hv; rw [← hE] at hv
    match i, hv with
    | 0, hv => cases hv; rfl
    | 1, hv => cases hv; rfl
    | 2, hv => cases hv; rfl
    | 3, hv => cases hv; rfl
    | 4, hv => cases hv; rfl
    | 5, hv => cases hv; rfl
    | 6, hv => cases hv; rfl
    | i + 7, hv => simp at hv
  rw [envLe_allpub hEpub hle3]
  -- V
  obtain ⟨XV3, hV3, hXV3s, kV3⟩ := okeep_block (by have := hk3 bv hbvN; rw [hV] at this; exact this)
  have hVd3 : BytesV XV3 voff V := bytesV_keepW kV3 hVd (fun _ _ _ h => h)
  refine runs_seq (Q := fun e s => e = E ∧ s.ent = st.ent ∧ s.mem.size = st.mem.size + 2 ∧
      (∃ X', s.mem[st.mem.size + 1]? = some ⟨X', 0⟩ ∧ X'.size = 56 ∧ HObjV X' (((HState.init HState.fresh).update hdr).update V)) ∧
      ∀ j, j < st.mem.size → ORel (KeepW (fun _ => False) (fun q => j = bv ∧ voff ≤ q ∧ q < voff + 32)) s.mem[j]? st.mem[j]?) ?_ ?_
  · refine (update_callK E s3 (.var 6) (.var 2) (.cast .u64 .i32 (.lit 32)) (st.mem.size + 1) bv X3 XV3 0 basev voff _ V ev6 (by simp only [evalE, e_2, reduceCtorEq, if_false])
      (by simp only [evalE, castVal_u64_i32_lit 32 (by decide), hVl]) hX3 hV3 (by omega) ho3 (by decide) (by rw [hX3s]; simp [ptrBase]) (by rw [hXV3s]; exact hltV) (by omega) (by omega)
      (by rw [hsz3]; omega) hVd3).weaken ?_
    intro sig e s ⟨g1, g2, g3, g4, ⟨X', g5, g6, g7⟩, g8⟩
    refine ⟨g1, envLe_allpub hEpub g2, by rw [g3]; exact hent3, by rw [g4]; exact hsz3, ⟨X', g5, by rw [g6]; exact hX3s, g7⟩, fun j hj => ?_⟩
    refine okeep_mono (okeep_trans (g8 j (by omega)) (hk3 j hj)) (fun q h => h.elim id id) (fun q h => ?_)
    rcases h with h | h
    · rw [hVl] at h; exact h
    · exact h.elim
  intro e4 s4 ⟨he4, hent4, hsz4, ⟨X4, hX4, hX4s, ho4⟩, hk4⟩
  rw [he4]
  -- in
  refine runs_seq (Q := fun e s => e = E ∧ s.ent = st.ent ∧ s.mem.size = st.mem.size + 2 ∧
      (∃ X', s.mem[st.mem.size + 1]? = some ⟨X', 0⟩ ∧ X'.size = 56 ∧ HObjV X' ((((HState.init HState.fresh).update hdr).update V).update inp)) ∧
      ∀ j, j < st.mem.size → ORel (KeepW (fun _ => False) (fun q => (j = bv ∧ voff ≤ q ∧ q < voff + 32) ∨ (j = bi ∧ ioff ≤ q ∧ q < ioff + inp.length))) s.mem[j]? st.mem[j]?) ?_ ?_
  · rcases hI with hI | ⟨hIm, hId, hpin, hltI⟩
    · subst hI
      refine (update_empty_call prog _ prog_update E s4 (.var 6) (.var 3) (.var 4) (st.mem.size + 1) X4 0 pin _ ev6 (by simp only [evalE, e_3, reduceCtorEq, if_false])
        (by simp only [evalE, e_4, reduceCtorEq, if_false, List.length_nil]) hX4 ho4 (by decide) (by rw [hX4s]; simp [ptrBase]) (by omega)).weaken ?_
      intro sig e s ⟨g1, g2, g3, g4, g5, X', g6, g7, g8⟩
      refine ⟨g1, g2, by rw [g3]; exact hent4, by rw [g4]; exact hsz4, ⟨X', g6, by rw [g7]; exact hX4s, ?_⟩, fun j hj => ?_⟩
      · rw [update_nil _ ho4.p16]; exact g8
      · rw [g5 j (by omega)]; exact okeep_mono (hk4 j hj) (fun _ h => h) (fun _ h => Or.inl h)
    · have hbiN := mem_lt hIm
      obtain ⟨XI4, hI4, hXI4s, kI4⟩ := okeep_block (by have := hk4 bi hbiN; rw [hIm] at this; exact this)
      have hId4 : BytesV XI4 ioff inp := bytesV_keepW kI4 hId (fun _ _ _ h => h)
      refine (update_callK E s4 (.var 6) (.var 3) (.var 4) (st.mem.size + 1) bi X4 XI4 0 basei ioff _ inp ev6 (by simp only [evalE, e_3, reduceCtorEq, if_false, hpin])
        (by simp only [evalE, e_4, reduceCtorEq, if_false]) hX4 hI4 (by omega) ho4 (by decide) (by rw [hX4s]; simp [ptrBase]) (by rw [hXI4s]; exact hltI) (by omega) (by omega)
        (by rw [hsz4]; omega) hId4).weaken ?_
      intro sig e s ⟨g1, g2, g3, g4, ⟨X', g5, g6, g7⟩, g8⟩
      refine ⟨g1, envLe_allpub hEpub g2, by rw [g3]; exact hent4, by rw [g4]; exact hsz4, ⟨X', g5, by rw [g6]; exact hX4s, g7⟩, fun j hj => ?_⟩
      exact okeep_mono (okeep_trans (g8 j (by omega)) (hk4 j hj)) (fun q h => h.elim id id) (fun q h => h.elim Or.inr Or.inl)
  intro e5 s5 ⟨he5, hent5, hsz5, ⟨X5, hX5, hX5s, ho5⟩, hk5⟩
  rw [he5]
  -- finalize into `out`
  obtain ⟨XO5, hO5, hXO5s, kO5⟩ := okeep_block (by have := hk5 bo hboN; rw [hO] at this; exact this)
  refine runs_seq (Q := fun e s => e = E ∧ s.ent = st.ent ∧ s.mem.size = st.mem.size + 2 ∧ (∃ X', s.mem[st.mem.size + 1]? = some ⟨X', 0⟩ ∧ X'.size = 56) ∧
      (∃ XO', s.mem[bo]? = some ⟨XO', baseo⟩ ∧ BytesV XO' oo (hashDf marker V inp)) ∧
      ∀ j, j < st.mem.size → ORel (KeepW (fun q => j = bo ∧ oo ≤ q ∧ q < oo + 32) (fun q => (j = bv ∧ voff ≤ q ∧ q < voff + 32) ∨ (j = bi ∧ ioff ≤ q ∧ q < ioff + inp.length)))
        s.mem[j]? st.mem[j]?) ?_ ?_
  · refine (finalize_call prog _ prog_finalize prog_compress prog_p256 E s5 (.var 6) (.var 0) (st.mem.size + 1) bo X5 XO5 0 baseo oo _ ev6 (by simp only [evalE, e_0, reduceCtorEq, if_false])
      hX5 hO5 (by omega) ho5 (by decide) (by rw [hX5s]; simp [ptrBase]) (by rw [hXO5s]; exact hltO) (by rw [hXO5s]; exact hinO) (by omega) (by omega) (by rw [hsz5]; omega)).weaken ?_
    intro sig e s ⟨g1, g2, g3, g4, ⟨blkS, g5, g6, g7, _⟩, ⟨blkO, g8, g9, g10, g11, g12⟩, g13⟩
    have hdig := hashDf_eq marker V inp HState.fresh hdr hhdr.symm
    refine ⟨g1, g2, by rw [g3]; exact hent5, by rw [g4]; exact hsz5, ⟨blkS.bytes, by rw [g5, ← g6], by rw [g7]; exact hX5s⟩, ⟨blkO.bytes, by rw [g8, ← g9], ?_, ?_⟩, fun j hj => ?_⟩
    · rw [g10, hXO5s]; have : (hashDf marker V inp).length = 32 := by rw [← hdig]; exact finalize_length _
      omega
    · intro q b hq; rw [← hdig] at hq; exact g11 q b hq
    · by_cases hjo : j = bo
      · subst hjo
        rw [g8, hO]
        have kk : KeepW (fun q => oo ≤ q ∧ q < oo + 32) (fun _ => False) blkO ⟨XO5, baseo⟩ :=
          ⟨g9, g10, fun q hq => ⟨orel_vle_veq (g12 q (by omega)), fun _ => g12 q (by omega)⟩⟩
        exact KeepW.mono (KeepW.trans kk kO5) (fun q h => h.elim (fun x => ⟨rfl, x⟩) False.elim) (fun q h => h.elim False.elim id)
      · refine okeep_mono (okeep_trans (okeep_of_le (g13 j (by omega) hjo) (fun _ => False) (fun _ => False)) (hk5 j hj)) (fun q h => h.elim False.elim False.elim) (fun q h => h.elim False.elim id)
  intro e6 s6 ⟨he6, hent6, hsz6, ⟨X6, hX6, hX6s⟩, ⟨XO6, hO6, hO6d⟩, hk6⟩
  rw [he6]
  refine (free_call E s6 (.var 6) (st.mem.size + 1) ⟨X6, 0⟩ ev6 hX6 rfl hX6s).weaken ?_
  intro sig e s ⟨_, _, hent7, hm7⟩
  have hszF : s.mem.size = st.mem.size + 2 := by rw [hm7, size_setBlock']; exact hsz6
  have hlk : ∀ j, j < st.mem.size → (s.mem.extract 0 st.mem.size)[j]? = s6.mem[j]? := by
    intro j hj
    rw [Array.getElem?_extract, hszF]
    have : j < min st.mem.size (st.mem.size + 2) - 0 := by omega
    simp only [this, if_true, Nat.zero_add]
    rw [hm7, getElem?_setBlock', if_neg (by omega)]
  have hexs : (s.mem.extract 0 st.mem.size).size = st.mem.size := by rw [Array.size_extract, hszF]; omega
  refine ⟨trivial, trivial, by show s.ent = st.ent; rw [hent7]; exact hent6, hexs, ⟨XO6, by show (s.mem.extract 0 st.mem.size)[bo]? = _; rw [hlk bo hboN]; exact hO6, hO6d⟩, fun j => ?_⟩
  show ORel _ (s.mem.extract 0 st.mem.size)[j]? st.mem[j]?
  by_cases hjn : j < st.mem.size
  · rw [hlk j hjn]; exact hk6 j hjn
  · rw [Array.getElem?_eq_none (by rw [hexs]; omega), Array.getElem?_eq_none (by omega)]; trivial

end TJ.MiniC.Hoare
