import TJ.Proofs.HashOneShot
namespace TJ.MiniC.Hoare
open TJ TJ.MiniC TJ.MiniC.PermC TJ.Gen.MiniC

/-- two facts about the (unique) completed execution -/
theorem RunsTo.and {prog : Program} {s : Stmt} {env : Env} {st : St} {P Q : Sig → Env → St → Prop}
    (h1 : RunsTo prog s env st P) (h2 : RunsTo prog s env st Q) : RunsTo prog s env st (fun g e t => P g e t ∧ Q g e t) := by
  obtain ⟨n1, g1, e1, t1, x1, p1⟩ := h1
  obtain ⟨n2, g2, e2, t2, x2, p2⟩ := h2
  have a := exec_mono prog n1 s env st g1 e1 t1 x1 (max n1 n2) (Nat.le_max_left _ _)
  have b := exec_mono prog n2 s env st g2 e2 t2 x2 (max n1 n2) (Nat.le_max_right _ _)
  rw [a] at b
  injection b with hg he ht
  subst hg he ht
  exact ⟨max n1 n2, g1, e1, t1, a, p1, p2⟩

/-- bytes `[off, off+n)` relabelled secret (undefined bytes stay undefined) -/
def raiseWin (off n : Nat) (X : Array LByte) : Array LByte :=
  X.mapIdx fun i x => if off ≤ i ∧ i < off + n then (x.1, if x.2 = .undef then .undef else .sec) else x

theorem size_raiseWin (off n : Nat) (X : Array LByte) : (raiseWin off n X).size = X.size := by simp [raiseWin]

theorem getElem?_raiseWin (off n : Nat) (X : Array LByte) (i : Nat) :
    (raiseWin off n X)[i]? = (X[i]?).map fun x => if off ≤ i ∧ i < off + n then (x.1, if x.2 = .undef then .undef else .sec) else x := by
  simp [raiseWin]

theorem bytesLe_raiseWin (off n : Nat) (X : Array LByte) : BytesLe X (raiseWin off n X) := by
  intro i
  rw [getElem?_raiseWin]
  cases h : X[i]? with
  | none => trivial
  | some x =>
    obtain ⟨b, l⟩ := x
    simp only [Option.map]
    by_cases hi : off ≤ i ∧ i < off + n
    · simp only [hi, and_self, if_true]
      refine ⟨rfl, ?_⟩
      cases l <;> simp [Lab.le]
    · simp only [hi, if_false]; exact VLe.refl _

/-- what a call leaves of block `j`: same base and size, and outside `W` every byte keeps its value and its label does not rise -/
def KeepB (W : Nat → Prop) (b b0 : Block) : Prop := b.base = b0.base ∧ b.bytes.size = b0.bytes.size ∧ ∀ q, ¬ W q → ORel VLe b.bytes[q]? b0.bytes[q]?

theorem KeepB.of_le {b b0 : Block} (h : BlockLe b b0) (W : Nat → Prop) : KeepB W b b0 := ⟨h.1, ARel.size_eq h.2, fun q _ => h.2 q⟩

theorem KeepB.trans {W W' : Nat → Prop} {a b c : Block} (h1 : KeepB W a b) (h2 : KeepB W' b c) : KeepB (fun q => W q ∨ W' q) a c :=
  ⟨h1.1.trans h2.1, h1.2.1.trans h2.2.1, fun q hq =>
    orel_trans (R := VLe) (fun _ _ _ p r => vle_trans p r) (h1.2.2 q (fun h => hq (Or.inl h))) (h2.2.2 q (fun h => hq (Or.inr h)))⟩

theorem KeepB.mono {W W' : Nat → Prop} {a b : Block} (h : KeepB W a b) (hw : ∀ q, W q → W' q) : KeepB W' a b :=
  ⟨h.1, h.2.1, fun q hq => h.2.2 q (fun x => hq (hw q x))⟩

theorem KeepB.refl (W : Nat → Prop) (b : Block) : KeepB W b b := KeepB.of_le (BlockLe.refl b) W

/-- **`tinyjambu_hash_update` keeps labels outside the data window**: blocks other than the state object keep base, size and values, and no label
    rises except inside `[off, off + |data|)` of the data block. -/
theorem update_keep (prog : Program) (fn : Nat) (hprog : prog[fn]? = some f_tinyjambu_hash_update)
    (hcomp : prog[idx_tinyjambu_hash_compress]? = some f_tinyjambu_hash_compress)
    (hperm : prog[idx_tinyjambu_permutation_256]? = some f_tinyjambu_permutation_256)
    (env : Env) (st : St) (es ei el : Expr) (bs bi : Nat) (X XI : Array LByte) (baseS basei off : Nat) (h : HState) (data : Bytes)
    (hes : evalE env es = .ok (mkPtr bs baseS, .pub)) (hei : evalE env ei = .ok (mkPtr bi (basei + off), .pub))
    (hel : evalE env el = .ok (data.length, .pub))
    (hS : st.mem[bs]? = some ⟨X, baseS⟩) (hI : st.mem[bi]? = some ⟨XI, basei⟩) (hne : bi ≠ bs)
    (hrep : HObjV X h) (halS : baseS % 4 = 0) (hltS : baseS + X.size < ptrBase) (hltI : basei + XI.size < ptrBase)
    (hbs30 : bs < 2 ^ 30) (hbi30 : bi < 2 ^ 30) (hsz : st.mem.size + 2 < 2 ^ 30)
    (hdata : ∀ k b, data[k]? = some b → ∃ l, XI[off + k]? = some (b, l) ∧ l ≠ Lab.undef) (inb : off + data.length ≤ XI.size) :
    RunsTo prog (.call none fn [es, ei, el]) env st (fun _ _ s =>
      ∀ j, j ≠ bs → ORel (KeepB (fun q => j = bi ∧ off ≤ q ∧ q < off + data.length)) s.mem[j]? st.mem[j]?) := by
  let XS' := raiseTo 48 X
  let XI' := raiseWin off data.length XI
  let m1 := setBlock st.mem bs XS'
  let hi : St := { st with mem := setBlock m1 bi XI' }
  have hS1 : m1[bs]? = some ⟨XS', baseS⟩ := by show (setBlock st.mem bs _)[bs]? = _; rw [getElem?_setBlock', if_pos rfl, hS]; rfl
  have hI1 : m1[bi]? = some ⟨XI, basei⟩ := by show (setBlock st.mem bs _)[bi]? = _; rw [getElem?_setBlock', if_neg hne]; exact hI
  have hSh : hi.mem[bs]? = some ⟨XS', baseS⟩ := by
    show (setBlock m1 bi _)[bs]? = _; rw [getElem?_setBlock', if_neg (fun e => hne e.symm)]; exact hS1
  have hIh : hi.mem[bi]? = some ⟨XI', basei⟩ := by show (setBlock m1 bi _)[bi]? = _; rw [getElem?_setBlock', if_pos rfl, hI1]; rfl
  have hle : StLe st hi :=
    ⟨memLe_trans (memLe_setBlock hS (bytesLe_raiseTo 48 X)) (memLe_setBlock hI1 (bytesLe_raiseWin off data.length XI)), rfl, rfl⟩
  have hdata' : ∀ k b, data[k]? = some b → XI'[off + k]? = some (b, Lab.sec) := by
    intro k b hb
    obtain ⟨l, hx, hl⟩ := hdata k b hb
    have hlt : k < data.length := by
      by_cases hk : k < data.length
      · exact hk
      · rw [List.getElem?_eq_none (by omega)] at hb; cases hb
    show (raiseWin off data.length XI)[off + k]? = _
    rw [getElem?_raiseWin, hx]
    simp only [Option.map, show off ≤ off + k ∧ off + k < off + data.length from ⟨by omega, by omega⟩, and_self, if_true, hl, if_false]
  let g : UGeo := ⟨prog, hi.mem, bs, baseS, X.size, bi, basei, XI', st.ent, hcomp, hperm, hne, hbs30, hbi30,
    by show (setBlock (setBlock st.mem bs _) bi _).size + 2 < 2 ^ 30; rw [size_setBlock', size_setBlock']; exact hsz, halS, hrep.sz, hltS,
    by show basei + (raiseWin off data.length XI).size < ptrBase; rw [size_raiseWin]; exact hltI, hIh⟩
  have hrun := update_call g fn hprog env hi es ei el h off data hes hei hel ⟨XS', hSh, hrep.raise, size_raiseTo 48 X⟩ (fun _ _ => rfl) rfl rfl hdata'
    (by show off + data.length ≤ (raiseWin off data.length XI).size; rw [size_raiseWin]; exact inb)
  refine (hrun.lower (envLe_refl env) hle).weaken ?_
  intro sig e s ⟨sig2, e', s', ⟨hs2, he2, hent2, hsz2, hoth2, X2, hm2, hX2s, ho2⟩, hg, hee, hss⟩
  intro j hj
  have a := hss.mem j
  rw [hoth2 j hj] at a
  by_cases hji : j = bi
  · subst hji
    rw [hIh] at a
    rw [hI]
    cases hb : s.mem[j]? with
    | none => rw [hb] at a; exact a.elim
    | some blk =>
      rw [hb] at a
      refine ⟨a.1, by rw [ARel.size_eq a.2, size_raiseWin], fun q hq => ?_⟩
      have := a.2 q
      show ORel VLe blk.bytes[q]? XI[q]?
      have hx : (raiseWin off data.length XI)[q]? = XI[q]? := by
        rw [getElem?_raiseWin]
        cases XI[q]? with
        | none => rfl
        | some x => simp only [Option.map, show ¬ (off ≤ q ∧ q < off + data.length) from fun h => hq ⟨rfl, h.1, h.2⟩, if_false]
      rw [← hx]; exact this
  · have hm : hi.mem[j]? = st.mem[j]? := by
      show (setBlock (setBlock st.mem bs _) bi _)[j]? = _
      rw [getElem?_setBlock', if_neg hji, getElem?_setBlock', if_neg hj]
    rw [hm] at a
    exact orel_map (R := BlockLe) (fun _ _ h => KeepB.of_le h _) a

end TJ.MiniC.Hoare
