/-
  TJ.Proofs.Perm — the word-sliced permutation of the C code (steps_32, four rotated uses per round,
  the three key-word schedules) equals the bit-serial NLFSR of the specification, for every state,
  every key and every number of rounds.
-/
import TJ.Spec.Perm
import TJ.Impl.Basic
import Std.Tactic.BVDecide
namespace TJ

/-- the 128-bit state: bit i of the specification = bit (i mod 32) of word i/32 -/
def pack (s : W4) : BitVec 128 := s.d.toBitVec ++ s.c.toBitVec ++ s.b.toBitVec ++ s.a.toBitVec

/-- apply the step function with the bits `f 0, f 1, …, f (n-1)` -/
def stepsBits (s : BitVec 128) (f : Nat → Bool) : Nat → BitVec 128
  | 0 => s
  | n+1 => stepsBits (Spec.step s (f 0)) (fun t => f (t+1)) n

theorem stateUpdateFrom_eq_stepsBits (key : Nat → Bool) (klen : Nat) (s : BitVec 128) (j n : Nat) :
    Spec.stateUpdateFrom key klen s j n = stepsBits s (fun t => key ((j + t) % klen)) n := by
  induction n generalizing s j with
  | zero => rfl
  | succ n ih =>
    simp only [Spec.stateUpdateFrom, stepsBits, Nat.add_zero]
    rw [ih]
    congr 1
    funext t
    congr 2; omega

theorem stepsBits_congr (s : BitVec 128) (f g : Nat → Bool) (n : Nat) (h : ∀ t, t < n → f t = g t) :
    stepsBits s f n = stepsBits s g n := by
  induction n generalizing s f g with
  | zero => rfl
  | succ n ih =>
    simp only [stepsBits]
    rw [h 0 (by omega)]
    exact ih _ _ _ (fun t ht => h (t+1) (by omega))

theorem stepsBits_add (s : BitVec 128) (f : Nat → Bool) (n m : Nat) :
    stepsBits s f (n + m) = stepsBits (stepsBits s f n) (fun t => f (n + t)) m := by
  induction n generalizing s f with
  | zero => simp [stepsBits]
  | succ n ih =>
    have : n + 1 + m = (n + m) + 1 := by omega
    rw [this]
    simp only [stepsBits]
    rw [ih]
    congr 1
    funext t
    congr 1; omega

/-- `tinyjambu_steps_32` on bit vectors -/
def wordFormula (a b c d kw : BitVec 32) : BitVec 32 :=
  let t1 := (b >>> 15) ||| (c <<< 17)
  let t2 := (c >>> 6) ||| (d <<< 26)
  let t3 := (c >>> 21) ||| (d <<< 11)
  let t4 := (c >>> 27) ||| (d <<< 5)
  a ^^^ t1 ^^^ (t2 &&& t3) ^^^ t4 ^^^ kw

theorem steps32_toBitVec (a b c d kw : UInt32) :
    (steps32 a b c d kw).toBitVec = wordFormula a.toBitVec b.toBitVec c.toBitVec d.toBitVec kw.toBitVec := by
  simp [steps32, wordFormula]

/-- (L1) 32 bit-serial steps whose key bits are the bits of `w` = one use of the word macro with the
    inverted key word; valid because the highest tap 91 + 31 < 128 -/
theorem steps32_bitserial (a b c d w : BitVec 32) :
    stepsBits (d ++ c ++ b ++ a) (fun t => w.getLsbD t) 32 = (wordFormula a b c d (~~~ w)) ++ d ++ c ++ b := by
  simp only [stepsBits, Spec.step, wordFormula]
  bv_decide

/-- key bit `i` of the specification, from the pre-inverted key words the C code keeps -/
def keyBits (k : Key) (i : Nat) : Bool := !((kw k (i / 32)).toBitVec.getLsbD (i % 32))

/-- the round the C code performs when its 128 steps start at step index `128·i`: key words
    `(4i + t) mod nk` -/
def roundAt (nk : Nat) (k : Key) (i : Nat) (s : W4) : W4 :=
  round128 s (kw k ((4*i) % nk)) (kw k ((4*i+1) % nk)) (kw k ((4*i+2) % nk)) (kw k ((4*i+3) % nk))

/-- 32 specification steps starting at step `32·q` (key length `32·nk`) on a packed state -/
theorem spec32 (nk : Nat) (hnk : 0 < nk) (k : Key) (q : Nat) (a b c d : UInt32) :
    Spec.stateUpdateFrom (keyBits k) (32 * nk) (pack ⟨a, b, c, d⟩) (32 * q) 32 =
      pack ⟨b, c, d, steps32 a b c d (kw k (q % nk))⟩ := by
  rw [stateUpdateFrom_eq_stepsBits]
  rw [stepsBits_congr _ _ (fun t => (~~~ (kw k (q % nk)).toBitVec).getLsbD t) 32 ?_]
  · unfold pack
    rw [steps32_bitserial]
    simp [steps32_toBitVec]
  · intro t ht
    have hq := Nat.div_add_mod q nk
    have hm := Nat.mod_lt q hnk
    have hlt : 32 * (q % nk) + t < 32 * nk := by omega
    have he : 32 * q + t = 32 * (q % nk) + t + 32 * nk * (q / nk) := by
      rw [Nat.mul_assoc]; omega
    have h1 : (32 * q + t) % (32 * nk) = 32 * (q % nk) + t := by
      rw [he, Nat.add_mul_mod_self_left, Nat.mod_eq_of_lt hlt]
    rw [h1]
    unfold keyBits
    have h2 : (32 * (q % nk) + t) / 32 = q % nk := by omega
    have h3 : (32 * (q % nk) + t) % 32 = t := by omega
    rw [h2, h3]
    simp [ht]

theorem stateUpdateFrom_add (key : Nat → Bool) (klen : Nat) (s : BitVec 128) (j n m : Nat) :
    Spec.stateUpdateFrom key klen s j (n + m) =
      Spec.stateUpdateFrom key klen (Spec.stateUpdateFrom key klen s j n) (j + n) m := by
  induction n generalizing s j with
  | zero => simp [Spec.stateUpdateFrom]
  | succ n ih =>
    have : n + 1 + m = (n + m) + 1 := by omega
    rw [this]
    simp only [Spec.stateUpdateFrom]
    rw [ih]
    congr 1; omega

/-- (L2) 128 specification steps starting at step `128·i` = one round of the C code with the key
    words `(4i + t) mod nk` -/
theorem spec128 (nk : Nat) (hnk : 0 < nk) (k : Key) (i : Nat) (s : W4) :
    Spec.stateUpdateFrom (keyBits k) (32 * nk) (pack s) (128 * i) 128 = pack (roundAt nk k i s) := by
  obtain ⟨a, b, c, d⟩ := s
  show Spec.stateUpdateFrom (keyBits k) (32 * nk) (pack ⟨a, b, c, d⟩) (128 * i) (32 + (32 + (32 + 32))) = _
  rw [stateUpdateFrom_add, stateUpdateFrom_add, stateUpdateFrom_add]
  have q0 : 128 * i = 32 * (4 * i) := by omega
  have q1 : 128 * i + 32 = 32 * (4 * i + 1) := by omega
  have q2 : 128 * i + 32 + 32 = 32 * (4 * i + 2) := by omega
  have q3 : 128 * i + 32 + 32 + 32 = 32 * (4 * i + 3) := by omega
  rw [q3, q2, q1, q0, spec32 nk hnk, spec32 nk hnk, spec32 nk hnk, spec32 nk hnk]
  rfl

/-- `r` rounds starting at round index `i` -/
def permGenFrom (nk : Nat) (k : Key) : Nat → Nat → W4 → W4
  | _, 0, s => s
  | i, r+1, s => permGenFrom nk k (i+1) r (roundAt nk k i s)

theorem specRounds (nk : Nat) (hnk : 0 < nk) (k : Key) (i r : Nat) (s : W4) :
    Spec.stateUpdateFrom (keyBits k) (32 * nk) (pack s) (128 * i) (128 * r) = pack (permGenFrom nk k i r s) := by
  induction r generalizing i s with
  | zero => rfl
  | succ r ih =>
    have : 128 * (r + 1) = 128 + 128 * r := by omega
    rw [this, stateUpdateFrom_add, spec128 nk hnk]
    have : 128 * i + 128 = 128 * (i + 1) := by omega
    rw [this, ih]
    rfl

/-- (L3) the three loop shapes of the C files are `permGenFrom` with nk = 4, 6, 8 -/
theorem perm128_eq (k : Key) (r : Nat) : ∀ (i : Nat) (s : W4), perm128 k r s = permGenFrom 4 k i r s := by
  induction r using Nat.strongRecOn with
  | _ r ih =>
    intro i s
    have h0 : (4 * i) % 4 = 0 := by omega
    have h1 : (4 * i + 1) % 4 = 1 := by omega
    have h2 : (4 * i + 2) % 4 = 2 := by omega
    have h3 : (4 * i + 3) % 4 = 3 := by omega
    have g0 : (4 * (i+1)) % 4 = 0 := by omega
    have g1 : (4 * (i+1) + 1) % 4 = 1 := by omega
    have g2 : (4 * (i+1) + 2) % 4 = 2 := by omega
    have g3 : (4 * (i+1) + 3) % 4 = 3 := by omega
    match r with
    | 0 => rfl
    | 1 => simp only [perm128, permGenFrom, roundAt, h0, h1, h2, h3]
    | r+2 =>
      simp only [perm128, permGenFrom, roundAt, h0, h1, h2, h3, g0, g1, g2, g3]
      exact ih r (by omega) (i+1+1) _

theorem perm256_eq (k : Key) (r : Nat) : ∀ (i : Nat) (s : W4), i % 2 = 0 → perm256 k r s = permGenFrom 8 k i r s := by
  induction r using Nat.strongRecOn with
  | _ r ih =>
    intro i s hi
    have h0 : (4 * i) % 8 = 0 := by omega
    have h1 : (4 * i + 1) % 8 = 1 := by omega
    have h2 : (4 * i + 2) % 8 = 2 := by omega
    have h3 : (4 * i + 3) % 8 = 3 := by omega
    have g0 : (4 * (i+1)) % 8 = 4 := by omega
    have g1 : (4 * (i+1) + 1) % 8 = 5 := by omega
    have g2 : (4 * (i+1) + 2) % 8 = 6 := by omega
    have g3 : (4 * (i+1) + 3) % 8 = 7 := by omega
    match r with
    | 0 => rfl
    | 1 => simp only [perm256, permGenFrom, roundAt, h0, h1, h2, h3]
    | r+2 =>
      simp only [perm256, permGenFrom, roundAt, h0, h1, h2, h3, g0, g1, g2, g3]
      exact ih r (by omega) (i+1+1) _ (by omega)

theorem perm192_eq (k : Key) (r : Nat) : ∀ (i : Nat) (s : W4), i % 3 = 0 → perm192 k r s = permGenFrom 6 k i r s := by
  induction r using Nat.strongRecOn with
  | _ r ih =>
    intro i s hi
    have h0 : (4 * i) % 6 = 0 := by omega
    have h1 : (4 * i + 1) % 6 = 1 := by omega
    have h2 : (4 * i + 2) % 6 = 2 := by omega
    have h3 : (4 * i + 3) % 6 = 3 := by omega
    have g0 : (4 * (i+1)) % 6 = 4 := by omega
    have g1 : (4 * (i+1) + 1) % 6 = 5 := by omega
    have g2 : (4 * (i+1) + 2) % 6 = 0 := by omega
    have g3 : (4 * (i+1) + 3) % 6 = 1 := by omega
    have f0 : (4 * (i+1+1)) % 6 = 2 := by omega
    have f1 : (4 * (i+1+1) + 1) % 6 = 3 := by omega
    have f2 : (4 * (i+1+1) + 2) % 6 = 4 := by omega
    have f3 : (4 * (i+1+1) + 3) % 6 = 5 := by omega
    match r with
    | 0 => rfl
    | 1 => simp only [perm192, permGenFrom, roundAt, h0, h1, h2, h3]
    | 2 => simp only [perm192, permGenFrom, roundAt, h0, h1, h2, h3, g0, g1, g2, g3]
    | r+3 =>
      simp only [perm192, permGenFrom, roundAt, h0, h1, h2, h3, g0, g1, g2, g3, f0, f1, f2, f3]
      exact ih r (by omega) (i+1+1+1) _ (by omega)

/-- the C back end of each variant = `StateUpdate(S, K, 128·rounds)` of the specification, for every
    state, every key and EVERY round count (0 included) -/
theorem permC_eq_spec (v : Variant) (k : Key) (rounds : Nat) (s : W4) :
    pack (permC v k rounds s) = Spec.stateUpdate (keyBits k) v.bits (pack s) (128 * rounds) := by
  unfold Spec.stateUpdate
  cases v with
  | v128 =>
    have := specRounds 4 (by omega) k 0 rounds s
    simp only [Nat.mul_zero] at this
    show pack (perm128 k rounds s) = _
    rw [perm128_eq k rounds 0 s]; exact this.symm
  | v192 =>
    have := specRounds 6 (by omega) k 0 rounds s
    simp only [Nat.mul_zero] at this
    show pack (perm192 k rounds s) = _
    rw [perm192_eq k rounds 0 s rfl]; exact this.symm
  | v256 =>
    have := specRounds 8 (by omega) k 0 rounds s
    simp only [Nat.mul_zero] at this
    show pack (perm256 k rounds s) = _
    rw [perm256_eq k rounds 0 s rfl]; exact this.symm

end TJ
