import TJ.Proofs.PrngCarry
namespace TJ.MiniC.Hoare
open TJ TJ.MiniC TJ.MiniC.PermC TJ.Gen.MiniC

def carryAdd (y : Nat) (ea : Expr) : Stmt := seqs [.load y .u8 ea, .assign 6 (.bin .add .u32 (.var 6) (.cast .u32 .u8 (.var y)))]

def carryIter : Stmt := .ite (.bin .ge .i32 (.var 7) (.lit 0))
  (seqs [seqs [carryAdd 13 (.bin .add .u64 (.var 3) (.cast .u64 .i32 (.var 7))),
               carryAdd 14 (.bin .add .u64 (.var 5) (.cast .u64 .i32 (.var 7))),
               carryAdd 15 (.bin .add .u64 (.bin .add .u64 (.var 3) (.lit 32)) (.cast .u64 .i32 (.var 7))),
               seqs [.assign 16 (.bin .add .u64 (.var 3) (.cast .u64 .i32 (.var 7))), .store .u8 (.var 16) (.cast .u8 .u32 (.var 6))],
               .assign 6 (.bin .shr .u32 (.var 6) (.lit 8))],
         .assign 7 (.bin .sub .i32 (.var 7) (.lit 1))])
  .brk

/-- byte `p` of `V` after `k` rounds of the carry loop -/
def newV (V H C : Bytes) (rc : UInt32) (k p : Nat) : UInt8 := if 32 - k ≤ p then (cstate V H C rc k).2.getD (31 - p) 0 else V.getD p 0

/-- the carry loop after `k` rounds -/
structure CYI (bp baseP bh : Nat) (X : Array LByte) (V H C : Bytes) (rc : UInt32) (mem0 : Array Block) (ent0 : List Delivery) (env0 : Env) (k : Nat) (env : Env) (s : St) : Prop where
  esz : env.size = 20
  e3 : env[3]? = some (mkPtr bp baseP, .pub)
  e5 : env[5]? = some (mkPtr bh 0, .pub)
  e6 : ∃ l, env[6]? = some ((cstate V H C rc k).1.toNat, l) ∧ l ≠ Lab.undef
  e7 : env[7]? = some (if k ≤ 31 then 31 - k else 4294967295, .pub)
  fr : ∀ y, y ≠ 6 → y ≠ 7 → (y < 13 ∨ 16 < y) → env[y]? = env0[y]?
  obj : ∃ Xk, s.mem[bp]? = some ⟨Xk, baseP⟩ ∧ Xk.size = X.size ∧ (∀ p, p < 32 → BV Xk p (newV V H C rc k p)) ∧ ∀ p, 32 ≤ p → Xk[p]? = X[p]?
  oth : ∀ j, j ≠ bp → s.mem[j]? = mem0[j]?
  msz : s.mem.size = mem0.size
  ent : s.ent = ent0

theorem ge_i32_small (a : Nat) (h : a < 2147483648) : binVal .ge .i32 a 0 = some 1 := by
  simp only [binVal, Ty.signed, if_true, toInt, Ty.half, Bool.true_and, ge_iff_le, show ¬ 2147483648 ≤ a from by omega, decide_false, Bool.false_eq_true, if_false,
    show ¬ (2147483648 : Nat) ≤ 0 from by decide, b2n]
  have : ((0 : Nat) : Int) ≤ (a : Int) := by omega
  simp only [this, decide_true, if_true]

theorem ge_i32_neg : binVal .ge .i32 4294967295 0 = some 0 := by decide

/-- the sum formed in round `k` -/
def csum (V H C : Bytes) (rc : UInt32) (k : Nat) : UInt32 :=
  (cstate V H C rc k).1 + (V.getD (31 - k) 0).toUInt32 + (H.getD (31 - k) 0).toUInt32 + (C.getD (31 - k) 0).toUInt32

theorem cstate_succ (V H C : Bytes) (rc : UInt32) (k : Nat) :
    cstate V H C rc (k + 1) = (csum V H C rc k >>> 8, (cstate V H C rc k).2 ++ [(csum V H C rc k).toUInt8]) := rfl

theorem newV_succ_eq (V H C : Bytes) (rc : UInt32) (k : Nat) (hk : k < 32) : newV V H C rc (k + 1) (31 - k) = (csum V H C rc k).toUInt8 := by
  unfold newV
  rw [if_pos (by omega), cstate_succ, show 31 - (31 - k) = k from by omega, List.getD_eq_getElem?_getD,
    List.getElem?_append_right (by rw [cstate_length]; exact Nat.le_refl _), cstate_length, Nat.sub_self]
  rfl

theorem newV_succ_ne (V H C : Bytes) (rc : UInt32) (k p : Nat) (hk : k < 32) (hp : p < 32) (hne : p ≠ 31 - k) : newV V H C rc (k + 1) p = newV V H C rc k p := by
  unfold newV
  by_cases h : 32 - k ≤ p
  · rw [if_pos h, if_pos (by omega), cstate_succ, List.getD_eq_getElem?_getD, List.getD_eq_getElem?_getD, List.getElem?_append_left (by rw [cstate_length]; omega)]
  · rw [if_neg h, if_neg (by omega)]

theorem sub_i32 (a : Nat) (ha : a < 32) : binVal .sub .i32 a 1 = some (if 1 ≤ a then a - 1 else 4294967295) := by
  simp only [binVal, Ty.modulus]
  have h1 : 1 % 4294967296 = 1 := rfl
  rw [h1]
  by_cases h : 1 ≤ a
  · rw [if_pos h]
    have : a + 4294967296 - 1 = (a - 1) + 4294967296 := by omega
    rw [this, Nat.add_mod_right, Nat.mod_eq_of_lt (by omega)]
  · rw [if_neg h]; have : a = 0 := by omega
    subst this; rfl

/-- one round of the carry loop -/
theorem carry_iter (bp baseP bh : Nat) (X XH : Array LByte) (V H C : Bytes) (rc : UInt32) (mem0 : Array Block) (ent0 : List Delivery) (env0 : Env)
    (hbp30 : bp < 2 ^ 30) (hbh30 : bh < 2 ^ 30) (hne : bh ≠ bp) (hXs : 64 ≤ X.size) (hltP : baseP + X.size < ptrBase)
    (hVl : V.length = 32) (hHl : H.length = 32) (hCl : C.length = 32) (hC : BytesV X 32 C)
    (hHm : mem0[bh]? = some ⟨XH, 0⟩) (hHd : BytesV XH 0 H) (hXHs : XH.size = 32)
    (k : Nat) (hk : k < 32) {env : Env} {s : St} (ci : CYI bp baseP bh X V H C rc mem0 ent0 env0 k env s) :
    RunsTo prog carryIter env s (fun sig e' s' => sig = .normal ∧ CYI bp baseP bh X V H C rc mem0 ent0 env0 (k + 1) e' s') := by
  obtain ⟨Xk, hXk, hXks, hXkv, hXkhi⟩ := ci.obj
  obtain ⟨l6, h6, hl6⟩ := ci.e6
  have hes := ci.esz
  have e7 : env[7]? = some (31 - k, .pub) := by rw [ci.e7, if_pos (by omega)]
  have hHs : s.mem[bh]? = some ⟨XH, 0⟩ := by rw [ci.oth bh hne]; exact hHm
  -- facts that survive assignments to the temporaries
  let EK : Env → Prop := fun e => e.size = 20 ∧ e[3]? = some (mkPtr bp baseP, .pub) ∧ e[5]? = some (mkPtr bh 0, .pub) ∧ e[7]? = some (31 - k, .pub) ∧
    ∀ y, y ≠ 6 → y ≠ 7 → (y < 13 ∨ 16 < y) → e[y]? = env0[y]?
  have ek0 : EK env := ⟨hes, ci.e3, ci.e5, e7, ci.fr⟩
  have ekSet : ∀ (e : Env) (y : Nat) (v : LVal), (y = 6 ∨ (13 ≤ y ∧ y ≤ 16)) → EK e → EK (setVar e y v) := fun e y v hy u =>
    ⟨by rw [size_setVar]; exact u.1, by rw [get_set_ne _ _ _ _ (by omega)]; exact u.2.1, by rw [get_set_ne _ _ _ _ (by omega)]; exact u.2.2.1,
     by rw [get_set_ne _ _ _ _ (by omega)]; exact u.2.2.2.1, fun z h1 h2 h3 => by rw [get_set_ne _ _ _ _ (by omega)]; exact u.2.2.2.2 z h1 h2 h3⟩
  have hidx : ∀ (e : Env), EK e → evalE e (.cast .u64 .i32 (.var 7)) = .ok (31 - k, .pub) := fun e u => by
    simp only [evalE, u.2.2.2.1, reduceCtorEq, if_false, castVal_u64_i32_lit (31 - k) (by omega)]
  have aV : ∀ (e : Env), EK e → evalE e (.bin .add .u64 (.var 3) (.cast .u64 .i32 (.var 7))) = .ok (mkPtr bp (baseP + (31 - k)), .pub) := fun e u => by
    simp only [evalE, u.2.1, u.2.2.2.1, reduceCtorEq, if_false, castVal_u64_i32_lit (31 - k) (by omega), BinOp.needsPub2, BinOp.needsPub1, Bool.false_and, Bool.or_self, Bool.false_eq_true,
      binVal, Ty.modulus, Lab.join_pub_pub, ptr_off bp baseP (31 - k) hbp30 (by omega)]
  have aH : ∀ (e : Env), EK e → evalE e (.bin .add .u64 (.var 5) (.cast .u64 .i32 (.var 7))) = .ok (mkPtr bh (0 + (31 - k)), .pub) := fun e u => by
    simp only [evalE, u.2.2.1, u.2.2.2.1, reduceCtorEq, if_false, castVal_u64_i32_lit (31 - k) (by omega), BinOp.needsPub2, BinOp.needsPub1, Bool.false_and, Bool.or_self, Bool.false_eq_true,
      binVal, Ty.modulus, Lab.join_pub_pub, ptr_off bh 0 (31 - k) hbh30 (by simp [ptrBase]; omega)]
  have aC : ∀ (e : Env), EK e → evalE e (.bin .add .u64 (.bin .add .u64 (.var 3) (.lit 32)) (.cast .u64 .i32 (.var 7))) = .ok (mkPtr bp (baseP + (32 + (31 - k))), .pub) := fun e u => by
    simp only [evalE, u.2.1, u.2.2.2.1, reduceCtorEq, if_false, castVal_u64_i32_lit (31 - k) (by omega), BinOp.needsPub2, BinOp.needsPub1, Bool.false_and, Bool.or_self, Bool.false_eq_true,
      binVal, Ty.modulus, Lab.join_pub_pub, ptr_off bp baseP 32 hbp30 (by omega), ptr_off bp (baseP + 32) (31 - k) hbp30 (by omega), Nat.add_assoc]
  have hbV : BV Xk (31 - k) (V.getD (31 - k) 0) := by
    have := hXkv (31 - k) (by omega)
    unfold newV at this; rw [if_neg (by omega)] at this; exact this
  have hbH : BV XH (0 + (31 - k)) (H.getD (31 - k) 0) :=
    hHd.2 (31 - k) _ (by rw [List.getD_eq_getElem?_getD, List.getElem?_eq_getElem (show 31 - k < H.length from by omega)]; rfl)
  have hbC : BV Xk (32 + (31 - k)) (C.getD (31 - k) 0) := by
    obtain ⟨l, hx, hl⟩ := hC.2 (31 - k) (C.getD (31 - k) 0) (by rw [List.getD_eq_getElem?_getD, List.getElem?_eq_getElem (show 31 - k < C.length from by omega)]; rfl)
    exact ⟨l, by rw [hXkhi _ (by omega)]; exact hx, hl⟩
  unfold carryIter
  refine runs_ite_true 1 ?_ (by decide) ?_
  · simp only [evalE, e7, reduceCtorEq, if_false, BinOp.needsPub2, BinOp.needsPub1, Bool.false_and, Bool.or_self, Bool.false_eq_true, ge_i32_small (31 - k) (by omega), Lab.join_pub_pub]
  simp only [seqs]
  refine runs_seq (Q := fun e' s' => ∃ l3, l3 ≠ Lab.undef ∧ EK e' ∧ e'[6]? = some ((csum V H C rc k >>> 8).toNat, l3) ∧ s'.ent = s.ent ∧
      s'.mem = setBlock s.mem bp (Xk.setIfInBounds (31 - k) ((csum V H C rc k).toUInt8, l3))) ?_ ?_
  · generalize hc0 : (cstate V H C rc k).1 = c0 at h6
    -- carry += V[i]
    refine runs_seq (Q := fun e' s' => ∃ l1 L, l1 ≠ Lab.undef ∧ EK e' ∧ e'[6]? = some ((c0 + (V.getD (31 - k) 0).toUInt32).toNat, l1) ∧ s' = { s with leak := L }) ?_ ?_
    · exact load_add_step 13 _ bp baseP (31 - k) Xk _ c0 l6 (by decide) (by omega) (by omega) (aV env ek0) (by exact hXk) hbV (by omega) (by rw [hXks]; exact hltP) h6 hl6
        (fun ly l' L hl' => ⟨rfl, l', L, hl', ekSet _ _ _ (Or.inl rfl) (ekSet _ _ _ (Or.inr ⟨by decide, by decide⟩) ek0), get_set_eq _ _ _ (by rw [size_setVar]; omega), rfl⟩)
    intro e1 s1 ⟨l1, L1, hl1, ek1, h61, hs1⟩; rw [hs1]
    -- carry += H[i]
    refine runs_seq (Q := fun e' s' => ∃ l2 L, l2 ≠ Lab.undef ∧ EK e' ∧ e'[6]? = some ((c0 + (V.getD (31 - k) 0).toUInt32 + (H.getD (31 - k) 0).toUInt32).toNat, l2) ∧ s' = { s with leak := L }) ?_ ?_
    · exact load_add_step 14 _ bh 0 (31 - k) XH _ _ l1 (by decide) (by rw [ek1.1]; decide) (by rw [ek1.1]; decide) (aH e1 ek1) (by exact hHs) (by simpa using hbH) (by omega) (by rw [hXHs]; simp [ptrBase])
        h61 hl1 (fun ly l' L hl' => ⟨rfl, l', L, hl', ekSet _ _ _ (Or.inl rfl) (ekSet _ _ _ (Or.inr ⟨by decide, by decide⟩) ek1), get_set_eq _ _ _ (by rw [size_setVar, ek1.1]; decide), rfl⟩)
    intro e2 s2 ⟨l2, L2, hl2, ek2, h62, hs2⟩; rw [hs2]
    -- carry += C[i]
    refine runs_seq (Q := fun e' s' => ∃ l3 L, l3 ≠ Lab.undef ∧ EK e' ∧ e'[6]? = some ((csum V H C rc k).toNat, l3) ∧ s' = { s with leak := L }) ?_ ?_
    · exact load_add_step 15 _ bp baseP (32 + (31 - k)) Xk _ _ l2 (by decide) (by rw [ek2.1]; decide) (by rw [ek2.1]; decide) (aC e2 ek2) (by exact hXk) hbC (by omega) (by rw [hXks]; exact hltP)
        h62 hl2 (fun ly l' L hl' => ⟨rfl, l', L, hl', ekSet _ _ _ (Or.inl rfl) (ekSet _ _ _ (Or.inr ⟨by decide, by decide⟩) ek2),
          by rw [get_set_eq _ _ _ (by rw [size_setVar, ek2.1]; decide)]; unfold csum; rw [hc0], rfl⟩)
    intro e3 s3 ⟨l3, L3, hl3, ek3, h63, hs3⟩; rw [hs3]
    generalize ht : csum V H C rc k = t at h63
    -- V[i] = (unsigned char)carry
    have hbyte : ((t.toNat % 256) % 256).toUInt8 = t.toUInt8 := by
      apply UInt8.toNat_inj.mp; simp [Nat.toUInt8, UInt32.toNat_toUInt8]
    refine runs_seq (Q := fun e' s' => EK e' ∧ e'[6]? = some (t.toNat, l3) ∧ s'.ent = s.ent ∧ s'.mem = setBlock s.mem bp (Xk.setIfInBounds (31 - k) (t.toUInt8, l3))) ?_ ?_
    · refine runs_seq (Q := fun e' s' => e' = setVar e3 16 (mkPtr bp (baseP + (31 - k)), .pub) ∧ s' = { s with leak := L3 }) (runs_assign _ (aV e3 ek3) ⟨rfl, rfl, rfl⟩) ?_
      intro e s' ⟨he, hs'⟩; rw [he, hs']
      refine runs_store (mkPtr bp (baseP + (31 - k))) (t.toNat % 256) bp (31 - k) 1 l3 rfl (by simp only [evalE, get_set_eq _ _ _ (show 16 < e3.size from by rw [ek3.1]; decide), reduceCtorEq, if_false])
        (by simp only [evalE, get_set_ne _ _ _ _ (show ¬ 16 = 6 from by decide), h63, hl3, reduceCtorEq, if_false, castVal_u8_u32]) (resolve_byte (by exact hXk) (31 - k) (by omega) (by omega)) ?_
      refine ⟨rfl, ekSet _ _ _ (Or.inr ⟨by decide, by decide⟩) ek3, by rw [get_set_ne _ _ _ _ (by decide)]; exact h63, rfl, ?_⟩
      show setBlock s.mem bp (writeLE (blockBytes s.mem bp) (31 - k) (t.toNat % 256) l3 1) = _
      rw [blockBytes_of hXk]
      simp only [writeLE, hbyte]
    intro e4 s4 ⟨ek4, h64, hent4, hm4⟩
    -- carry >>= 8
    have hj : l3.join .pub = l3 := by cases l3 <;> first | rfl | exact absurd rfl hl3
    exact runs_assign ((t >>> 8).toNat, l3) (by
        simp only [evalE, h64, hl3, if_false, BinOp.needsPub2, BinOp.needsPub1, Bool.true_and, Bool.or_self, Bool.false_eq_true, bne_self_eq_false, binVal, Ty.bits,
          ge_iff_le, show ¬ 32 ≤ 8 from by decide, Ty.signed, UInt32.toNat_shiftRight, ne_eq, not_true_eq_false, decide_false, Bool.false_and, hj,
          show UInt32.toNat 8 % 32 = 8 from by decide]) ⟨rfl, l3, hl3, ekSet _ _ _ (Or.inl rfl) ek4, get_set_eq _ _ _ (by rw [ek4.1]; decide), hent4, hm4⟩
  intro e5 s5 ⟨l3, hl3, ek5, h65, hent5, hm5⟩
  generalize ht : csum V H C rc k = t at h65 hm5
  -- --index
  refine runs_assign (if 1 ≤ 31 - k then 31 - k - 1 else 4294967295, .pub) (by
    simp only [evalE, ek5.2.2.2.1, reduceCtorEq, if_false, BinOp.needsPub2, BinOp.needsPub1, Bool.false_and, Bool.or_self, Bool.false_eq_true, sub_i32 (31 - k) (by omega), Lab.join_pub_pub]) ?_
  refine ⟨rfl, by rw [size_setVar]; exact ek5.1, by rw [get_set_ne _ _ _ _ (by decide)]; exact ek5.2.1, by rw [get_set_ne _ _ _ _ (by decide)]; exact ek5.2.2.1,
    ⟨l3, by rw [get_set_ne _ _ _ _ (by decide), h65, cstate_succ, ht], hl3⟩, ?_, fun y h1 h2 h3 => by rw [get_set_ne _ _ _ _ (fun e => h2 e.symm)]; exact ek5.2.2.2.2 y h1 h2 h3, ?_,
    fun j hj => by rw [hm5, getElem?_setBlock', if_neg hj]; exact ci.oth j hj, by rw [hm5, size_setBlock']; exact ci.msz, by rw [hent5]; exact ci.ent⟩
  · rw [get_set_eq _ _ _ (by rw [ek5.1]; decide)]
    congr 2
    by_cases h : k + 1 ≤ 31
    · rw [if_pos h, if_pos (by omega)]; omega
    · rw [if_neg h, if_neg (by omega)]
  · refine ⟨_, by rw [hm5, getElem?_setBlock', if_pos rfl, hXk]; rfl, by rw [Array.size_setIfInBounds]; exact hXks, fun p hp => ?_, fun p hp => ?_⟩
    · by_cases hpi : p = 31 - k
      · subst hpi
        rw [newV_succ_eq V H C rc k hk, ht]
        exact ⟨l3, by rw [Array.getElem?_setIfInBounds, if_pos rfl, if_pos (by omega)], hl3⟩
      · rw [newV_succ_ne V H C rc k p hk hp hpi]
        obtain ⟨l, hx, hl⟩ := hXkv p hp
        exact ⟨l, by rw [Array.getElem?_setIfInBounds, if_neg (fun e => hpi e.symm)]; exact hx, hl⟩
    · rw [Array.getElem?_setIfInBounds, if_neg (by omega)]; exact hXkhi p hp

theorem carry_exit (bp baseP bh : Nat) (X : Array LByte) (V H C : Bytes) (rc : UInt32) (mem0 : Array Block) (ent0 : List Delivery) (env0 : Env)
    {env : Env} {s : St} (ci : CYI bp baseP bh X V H C rc mem0 ent0 env0 32 env s) :
    RunsTo prog carryIter env s (fun sig e' s' => sig = .brk ∧ CYI bp baseP bh X V H C rc mem0 ent0 env0 32 e' s') := by
  have e7 : env[7]? = some (4294967295, .pub) := by rw [ci.e7, if_neg (by decide)]
  unfold carryIter
  refine runs_ite_false ?_ (runs_brk ⟨rfl, ci.esz, ci.e3, ci.e5, ci.e6, ci.e7, ci.fr, ci.obj, ci.oth, ci.msz, ci.ent⟩)
  simp only [evalE, e7, reduceCtorEq, if_false, BinOp.needsPub2, BinOp.needsPub1, Bool.false_and, Bool.or_self, Bool.false_eq_true, ge_i32_neg, Lab.join_pub_pub]

theorem carry_loop (bp baseP bh : Nat) (X XH : Array LByte) (V H C : Bytes) (rc : UInt32) (mem0 : Array Block) (ent0 : List Delivery) (env0 : Env)
    (hbp30 : bp < 2 ^ 30) (hbh30 : bh < 2 ^ 30) (hne : bh ≠ bp) (hXs : 64 ≤ X.size) (hltP : baseP + X.size < ptrBase)
    (hVl : V.length = 32) (hHl : H.length = 32) (hCl : C.length = 32) (hC : BytesV X 32 C)
    (hHm : mem0[bh]? = some ⟨XH, 0⟩) (hHd : BytesV XH 0 H) (hXHs : XH.size = 32) :
    ∀ (r k : Nat), k + r = 32 → ∀ (env : Env) (s : St), CYI bp baseP bh X V H C rc mem0 ent0 env0 k env s →
    RunsTo prog (.loop carryIter) env s (fun sig e' s' => sig = .normal ∧ CYI bp baseP bh X V H C rc mem0 ent0 env0 32 e' s')
  | 0, k, hkr, env, s, ci => by
    have : k = 32 := by omega
    subst this
    exact runs_loop_break ((carry_exit bp baseP bh X V H C rc mem0 ent0 env0 ci).weaken fun _ _ _ ⟨h, b⟩ => ⟨h, rfl, b⟩)
  | r + 1, k, hkr, env, s, ci => by
    refine runs_loop_continue (carry_iter bp baseP bh X XH V H C rc mem0 ent0 env0 hbp30 hbh30 hne hXs hltP hVl hHl hCl hC hHm hHd hXHs k (by omega) ci) ?_
    intro e s' ci'
    exact carry_loop bp baseP bh X XH V H C rc mem0 ent0 env0 hbp30 hbh30 hne hXs hltP hVl hHl hCl hC hHm hHd hXHs r (k + 1) (by omega) e s' ci'

def carryStmt : Stmt := seqs [.assign 7 (.bin .sub .i32 (.lit 32) (.lit 1)), .loop carryIter]

/-- **the carry loop of `tinyjambu_prng_generate`**: `V ← V + H + C + carry` as the model's `vAdvance` computes it -/
theorem carry_run (bp baseP bh : Nat) (X XH : Array LByte) (V H C : Bytes) (rc : UInt32) (env : Env) (st : St) (l6 : Lab)
    (hbp30 : bp < 2 ^ 30) (hbh30 : bh < 2 ^ 30) (hne : bh ≠ bp) (hXs : 64 ≤ X.size) (hltP : baseP + X.size < ptrBase)
    (hVl : V.length = 32) (hHl : H.length = 32) (hCl : C.length = 32) (hV : BytesV X 0 V) (hC : BytesV X 32 C)
    (hP : st.mem[bp]? = some ⟨X, baseP⟩) (hHm : st.mem[bh]? = some ⟨XH, 0⟩) (hHd : BytesV XH 0 H) (hXHs : XH.size = 32)
    (hes : env.size = 20) (e3 : env[3]? = some (mkPtr bp baseP, .pub)) (e5 : env[5]? = some (mkPtr bh 0, .pub)) (e6 : env[6]? = some (rc.toNat, l6)) (hl6 : l6 ≠ .undef) :
    RunsTo prog carryStmt env st (fun sig e' s' => sig = .normal ∧ e'.size = 20 ∧ (∀ y, y ≠ 6 → y ≠ 7 → (y < 13 ∨ 16 < y) → e'[y]? = env[y]?) ∧ s'.ent = st.ent ∧
      s'.mem.size = st.mem.size ∧ (∀ j, j ≠ bp → s'.mem[j]? = st.mem[j]?) ∧
      ∃ X', s'.mem[bp]? = some ⟨X', baseP⟩ ∧ X'.size = X.size ∧ BytesV X' 0 (vAdvance V H C rc) ∧ ∀ p, 32 ≤ p → X'[p]? = X[p]?) := by
  unfold carryStmt
  simp only [seqs]
  refine runs_seq (Q := fun e s => e = setVar env 7 (31, .pub) ∧ s = st) (runs_assign (31, .pub) (by
    simp only [evalE, BinOp.needsPub2, BinOp.needsPub1, Bool.false_and, Bool.or_self, Bool.false_eq_true, binVal, Ty.modulus, Lab.join_pub_pub]; rfl) ⟨rfl, rfl, rfl⟩) ?_
  intro e s ⟨he, hs⟩; rw [he, hs]
  have ci0 : CYI bp baseP bh X V H C rc st.mem st.ent env 0 (setVar env 7 (31, .pub)) st :=
    ⟨by rw [size_setVar]; exact hes, by rw [get_set_ne _ _ _ _ (by decide)]; exact e3, by rw [get_set_ne _ _ _ _ (by decide)]; exact e5,
     ⟨l6, by rw [get_set_ne _ _ _ _ (by decide)]; exact e6, hl6⟩, get_set_eq _ _ _ (by rw [hes]; decide), fun y _ h2 _ => get_set_ne _ _ _ _ (fun e => h2 e.symm),
     ⟨X, hP, rfl, fun p hp => by
        unfold newV; rw [if_neg (by omega)]
        rw [List.getD_eq_getElem?_getD, List.getElem?_eq_getElem (show p < V.length from by omega)]
        have := hV.2 p _ (List.getElem?_eq_getElem (show p < V.length from by omega))
        rw [Nat.zero_add] at this; exact this, fun _ _ => rfl⟩,
     fun _ _ => rfl, rfl, rfl⟩
  refine (carry_loop bp baseP bh X XH V H C rc st.mem st.ent env hbp30 hbh30 hne hXs hltP hVl hHl hCl hC hHm hHd hXHs 32 0 rfl _ st ci0).weaken ?_
  intro sig e' s' ⟨hsig, ci⟩
  obtain ⟨X', g1, g2, g3, g4⟩ := ci.obj
  refine ⟨hsig, ci.esz, ci.fr, ci.ent, ci.msz, ci.oth, X', g1, g2, ⟨?_, fun q b hq => ?_⟩, g4⟩
  · have hl : (vAdvance V H C rc).length = 32 := by rw [vAdvance_cstate V H C rc hVl hHl hCl, List.length_reverse, cstate_length]
    rw [hl, g2]; omega
  · rw [vAdvance_cstate V H C rc hVl hHl hCl] at hq
    have hq32 : q < 32 := by
      by_cases h : q < 32
      · exact h
      · rw [List.getElem?_eq_none (by rw [List.length_reverse, cstate_length]; omega)] at hq; cases hq
    rw [List.getElem?_reverse (by rw [cstate_length]; exact hq32), cstate_length] at hq
    have := g3 q hq32
    unfold newV at this
    rw [if_pos (by omega), List.getD_eq_getElem?_getD, show 31 - q = 32 - 1 - q from by omega, hq] at this
    simpa using this

end TJ.MiniC.Hoare
