/-
  TJ.Proofs.SpecAead — the word-level AEAD/SIV model refines the specification's bit-level definition:
  a simulation through `pack`, generic in a word-level permutation `Pi` and a bit-level StateUpdate `U`
  that agree (`pack (Pi r s) = U (pack s) (128·r)`).
-/
import TJ.Proofs.SpecBytes
namespace TJ
open Spec

theorem frame50 : (0x50 : UInt32).toBitVec = (0x50 : BitVec 8).zeroExtend 32 := by decide
theorem frame70 : (0x70 : UInt32).toBitVec = (0x70 : BitVec 8).zeroExtend 32 := by decide
theorem frameD0 : (0xD0 : UInt32).toBitVec = (0xD0 : BitVec 8).zeroExtend 32 := by decide
theorem frame30 : (0x30 : UInt32).toBitVec = (0x30 : BitVec 8).zeroExtend 32 := by decide

section
variable (Pi : Perm) (U : St → Nat → St) (hP : ∀ r s, pack (Pi r s) = U (pack s) (128 * r))
include hP

theorem absorb_refines (d : UInt32) (d8 : BitVec 8) (hd : d.toBitVec = d8.zeroExtend 32) (rounds : Nat) (s : W4) (data : Bytes) :
    pack (absorbData Pi d rounds s data) = Spec.absorb U d8 (128 * rounds) (pack s) data := by
  fun_induction absorbData Pi d rounds s data with
  | case1 s b0 b1 b2 b3 rest ih =>
    rw [ih]; simp only [Spec.absorb]
    rw [pack_absorbW, hP, pack_addDomain_frame _ _ _ hd, load32_leWord]
  | case2 s b0 b1 b2 =>
    simp only [Spec.absorb, List.length_cons, List.length_nil]
    rw [show (0x03 : UInt32) = (3 : Nat).toUInt32 from rfl, pack_addDomain_len _ 3 (by omega),
      pack_absorbW, hP, pack_addDomain_frame _ _ _ hd, load24_leWord]
  | case3 s b0 b1 =>
    simp only [Spec.absorb, List.length_cons, List.length_nil]
    rw [show (0x02 : UInt32) = (2 : Nat).toUInt32 from rfl, pack_addDomain_len _ 2 (by omega),
      pack_absorbW, hP, pack_addDomain_frame _ _ _ hd, load16_leWord]
  | case4 s b0 =>
    simp only [Spec.absorb, List.length_cons, List.length_nil]
    rw [show (0x01 : UInt32) = (1 : Nat).toUInt32 from rfl, pack_addDomain_len _ 1 (by omega),
      pack_absorbW, hP, pack_addDomain_frame _ _ _ hd, load8_leWord]
  | case5 s => simp [Spec.absorb]



theorem encBody_refines (pk : Nat) (s : W4) (m : Bytes) :
    pack (encBody Pi pk s m).1 = (Spec.encBody U (128 * pk) (pack s) m).1 ∧
    (encBody Pi pk s m).2 = (Spec.encBody U (128 * pk) (pack s) m).2 := by
  fun_induction encBody Pi pk s m with
  | case1 s b0 b1 b2 b3 rest s1 data s2 data' r ih =>
    have hs2 : pack s2 = xorData (U (frame (pack s) 0x50) (128 * pk)) (leWord [b0, b1, b2, b3]) := by
      simp only [s2, s1, data]
      rw [pack_absorbW, hP, pack_addDomain_frame _ _ _ frame50, load32_leWord]
    simp only [Spec.encBody]
    rw [← hs2]
    refine ⟨ih.1, ?_⟩
    rw [← ih.2, store32_wordBytes]
    simp only [data', data, UInt32.toBitVec_xor, load32_leWord, squeeze_ks]
    rfl
  | case2 s b0 b1 b2 s1 data s2 data' =>
    have hs2 : pack s2 = xorLen (xorData (U (frame (pack s) 0x50) (128 * pk)) (leWord [b0, b1, b2])) 3 := by
      simp only [s2, s1, data]
      rw [show (0x03 : UInt32) = (3 : Nat).toUInt32 from rfl, pack_addDomain_len _ 3 (by omega),
        pack_absorbW, hP, pack_addDomain_frame _ _ _ frame50, load24_leWord]
    simp only [Spec.encBody, List.length_cons, List.length_nil]
    rw [← hs2]
    refine ⟨rfl, ?_⟩
    rw [bytes3_wordBytes]
    simp only [data', data, UInt32.toBitVec_xor, load24_leWord, squeeze_ks]
  | case3 s b0 b1 s1 data s2 data' =>
    have hs2 : pack s2 = xorLen (xorData (U (frame (pack s) 0x50) (128 * pk)) (leWord [b0, b1])) 2 := by
      simp only [s2, s1, data]
      rw [show (0x02 : UInt32) = (2 : Nat).toUInt32 from rfl, pack_addDomain_len _ 2 (by omega),
        pack_absorbW, hP, pack_addDomain_frame _ _ _ frame50, load16_leWord]
    simp only [Spec.encBody, List.length_cons, List.length_nil]
    rw [← hs2]
    refine ⟨rfl, ?_⟩
    rw [bytes2_wordBytes]
    simp only [data', data, UInt32.toBitVec_xor, load16_leWord, squeeze_ks]
  | case4 s b0 s1 data s2 =>
    have hs2 : pack s2 = xorLen (xorData (U (frame (pack s) 0x50) (128 * pk)) (leWord [b0])) 1 := by
      simp only [s2, s1, data]
      rw [show (0x01 : UInt32) = (1 : Nat).toUInt32 from rfl, pack_addDomain_len _ 1 (by omega),
        pack_absorbW, hP, pack_addDomain_frame _ _ _ frame50, load8_leWord]
    simp only [Spec.encBody, List.length_cons, List.length_nil]
    rw [← hs2]
    refine ⟨rfl, ?_⟩
    rw [bytes1_wordBytes]
    simp only [data, UInt32.toBitVec_xor, load8_leWord, squeeze_ks, BitVec.xor_comm]
  | case5 s => simp [Spec.encBody]

theorem decBody_refines (pk : Nat) (s : W4) (c : Bytes) :
    pack (decBody Pi pk s c).1 = (Spec.decBody U (128 * pk) (pack s) c).1 ∧
    (decBody Pi pk s c).2 = (Spec.decBody U (128 * pk) (pack s) c).2 := by
  fun_induction decBody Pi pk s c with
  | case1 s b0 b1 b2 b3 rest s1 data s2 r ih =>
    have hs1 : pack s1 = U (frame (pack s) 0x50) (128 * pk) := by
      simp only [s1]; rw [hP, pack_addDomain_frame _ _ _ frame50]
    have hd : data.toBitVec = leWord [b0, b1, b2, b3] ^^^ ks (U (frame (pack s) 0x50) (128 * pk)) := by
      simp only [data, UInt32.toBitVec_xor, load32_leWord, squeeze_ks, hs1]
    have hs2 : pack s2 = xorData (U (frame (pack s) 0x50) (128 * pk)) (leWord [b0, b1, b2, b3] ^^^ ks (U (frame (pack s) 0x50) (128 * pk))) := by
      simp only [s2]; rw [pack_absorbW, hs1, hd]
    simp only [Spec.decBody]
    rw [← hs2]
    refine ⟨ih.1, ?_⟩
    rw [← ih.2, store32_wordBytes, hd]
  | case2 s b0 b1 b2 s1 data s2 =>
    have hs1 : pack s1 = U (frame (pack s) 0x50) (128 * pk) := by
      simp only [s1]; rw [hP, pack_addDomain_frame _ _ _ frame50]
    have hd : data.toBitVec = leWord (wordBytes (leWord [b0, b1, b2] ^^^ ks (U (frame (pack s) 0x50) (128 * pk))) 3) := by
      rw [leWord_wordBytes3]
      simp only [data, UInt32.toBitVec_and, UInt32.toBitVec_xor, load24_leWord, squeeze_ks, hs1]; rfl
    simp only [Spec.decBody, List.length_cons, List.length_nil]
    refine ⟨?_, ?_⟩
    · simp only [s2]
      rw [show (0x03 : UInt32) = (3 : Nat).toUInt32 from rfl, pack_addDomain_len _ 3 (by omega), pack_absorbW, hs1, hd]
    · rw [bytes3_wordBytes, hd]
  | case3 s b0 b1 s1 data s2 =>
    have hs1 : pack s1 = U (frame (pack s) 0x50) (128 * pk) := by
      simp only [s1]; rw [hP, pack_addDomain_frame _ _ _ frame50]
    have hd : data.toBitVec = leWord (wordBytes (leWord [b0, b1] ^^^ ks (U (frame (pack s) 0x50) (128 * pk))) 2) := by
      rw [leWord_wordBytes2]
      simp only [data, UInt32.toBitVec_and, UInt32.toBitVec_xor, load16_leWord, squeeze_ks, hs1]; rfl
    simp only [Spec.decBody, List.length_cons, List.length_nil]
    refine ⟨?_, ?_⟩
    · simp only [s2]
      rw [show (0x02 : UInt32) = (2 : Nat).toUInt32 from rfl, pack_addDomain_len _ 2 (by omega), pack_absorbW, hs1, hd]
    · rw [bytes2_wordBytes, hd]
  | case4 s b0 s1 data s2 =>
    have hs1 : pack s1 = U (frame (pack s) 0x50) (128 * pk) := by
      simp only [s1]; rw [hP, pack_addDomain_frame _ _ _ frame50]
    have hd : data.toBitVec = leWord (wordBytes (leWord [b0] ^^^ ks (U (frame (pack s) 0x50) (128 * pk))) 1) := by
      rw [leWord_wordBytes1]
      simp only [data, UInt32.toBitVec_and, UInt32.toBitVec_xor, load8_leWord, squeeze_ks, hs1]; rfl
    simp only [Spec.decBody, List.length_cons, List.length_nil]
    refine ⟨?_, ?_⟩
    · simp only [s2]
      rw [show (0x01 : UInt32) = (1 : Nat).toUInt32 from rfl, pack_addDomain_len _ 1 (by omega), pack_absorbW, hs1, hd]
    · rw [bytes1_wordBytes, hd]
  | case5 s => simp [Spec.decBody]

theorem genTag_refines (pk : Nat) (s : W4) : genTag Pi pk s = Spec.tag U (128 * pk) (pack s) := by
  simp only [genTag, Spec.tag]
  rw [store32_wordBytes, store32_wordBytes, squeeze_ks, squeeze_ks, hP, hP,
    pack_addDomain_frame _ _ _ frame70, pack_addDomain_frame _ _ _ frame70, hP, pack_addDomain_frame _ _ _ frame70]

theorem sivBody_refines (pk : Nat) (s : W4) (m : Bytes) :
    sivBody Pi pk s m = Spec.sivBody U (128 * pk) (pack s) m := by
  fun_induction sivBody Pi pk s m with
  | case1 s b0 b1 b2 b3 rest s1 ih =>
    have hs1 : pack s1 = U (frame (pack s) 0xD0) (128 * pk) := by
      simp only [s1]; rw [hP, pack_addDomain_frame _ _ _ frameD0]
    simp only [Spec.sivBody]
    rw [ih, hs1, store32_wordBytes]
    simp only [UInt32.toBitVec_xor, load32_leWord, squeeze_ks, hs1]
  | case2 s b0 b1 b2 s1 data =>
    have hs1 : pack s1 = U (frame (pack s) 0xD0) (128 * pk) := by
      simp only [s1]; rw [hP, pack_addDomain_frame _ _ _ frameD0]
    simp only [Spec.sivBody, List.length_cons, List.length_nil]
    rw [bytes3_wordBytes]
    simp only [data, UInt32.toBitVec_xor, load24_leWord, squeeze_ks, hs1]
  | case3 s b0 b1 s1 data =>
    have hs1 : pack s1 = U (frame (pack s) 0xD0) (128 * pk) := by
      simp only [s1]; rw [hP, pack_addDomain_frame _ _ _ frameD0]
    simp only [Spec.sivBody, List.length_cons, List.length_nil]
    rw [bytes2_wordBytes]
    simp only [data, UInt32.toBitVec_xor, load16_leWord, squeeze_ks, hs1]
  | case4 s b0 s1 =>
    have hs1 : pack s1 = U (frame (pack s) 0xD0) (128 * pk) := by
      simp only [s1]; rw [hP, pack_addDomain_frame _ _ _ frameD0]
    simp only [Spec.sivBody, List.length_cons, List.length_nil]
    rw [bytes1_wordBytes]
    simp only [UInt32.toBitVec_xor, load8_leWord, squeeze_ks, hs1, BitVec.xor_comm]
  | case5 s => simp [Spec.sivBody]

end
end TJ
