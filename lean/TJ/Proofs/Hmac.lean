/-
  TJ.Proofs.Hmac — the HMAC state machine refines RFC 2104 over the model's hash.
-/
import TJ.Proofs.Hash
import TJ.Spec.Kdf
namespace TJ

theorem u8_zero_xor (m : UInt8) : (0 : UInt8) ^^^ m = m := by
  cases m; simp

/-- one update on a freshly initialised object, then finalize = the one-shot hash -/
theorem init_update_finalize (p : HState) (m : Bytes) : ((p.init.update m).finalize).1 = hash m := by
  have hf := foldl_update_spec [m] p.init (init_inv _)
  simp only [List.foldl_cons, List.foldl_nil, List.flatten_cons, List.flatten_nil, List.append_nil] at hf
  rw [finalize_spec _ hf.2.2.1, hf.1, hf.2.1, init_pend, List.nil_append, hash_eq_hashPure]; rfl

theorem init_update2_finalize (p : HState) (a b : Bytes) :
    (((p.init.update a).update b).finalize).1 = hash (a ++ b) := by
  have hf := foldl_update_spec [a, b] p.init (init_inv _)
  simp only [List.foldl_cons, List.foldl_nil, List.flatten_cons, List.flatten_nil, List.append_nil] at hf
  rw [finalize_spec _ hf.2.2.1, hf.1, hf.2.1, init_pend, List.nil_append, hash_eq_hashPure]; rfl

/-- the 64-byte block `set_key` feeds: (K ⊕ mask) ‖ mask^(64-|K|) -/
def hmacKeyBlock (key : Bytes) (mask : UInt8) : Bytes :=
  let kb := if key.length ≤ 64 then key else hash key
  (kb.map fun b => b ^^^ mask) ++ List.replicate (64 - kb.length) mask

theorem hmacSetKey_eq (h : HState) (key : Bytes) (mask : UInt8) :
    hmacSetKey h key mask = h.init.update (hmacKeyBlock key mask) := by
  unfold hmacSetKey hmacKeyBlock
  by_cases hk : key.length ≤ 64
  · simp [hk]
  · simp only [hk, if_false, init_update_finalize]

/-- the C's block equals the RFC's padded key XOR the pad byte -/
theorem hmacKeyBlock_spec (key : Bytes) (mask : UInt8) :
    hmacKeyBlock key mask =
      ((if key.length > 64 then hash key else key) ++
        List.replicate (64 - (if key.length > 64 then hash key else key).length) 0).map (· ^^^ mask) := by
  unfold hmacKeyBlock
  have e : (if key.length ≤ 64 then key else hash key) = (if key.length > 64 then hash key else key) := by
    by_cases hk : key.length ≤ 64
    · have : ¬ key.length > 64 := by omega
      simp [hk, this]
    · have : key.length > 64 := by omega
      simp [hk, this]
  rw [e]
  simp [List.map_append, List.map_replicate, u8_zero_xor]

theorem setKey_inv (h : HState) (key : Bytes) (mask : UInt8) : (hmacSetKey h key mask).Inv := by
  rw [hmacSetKey_eq]; exact (update_spec _ _ (init_inv _)).2.2.1

/-- streaming HMAC: init, any chunks, finalize = RFC 2104 of the concatenation -/
theorem hmac_streaming (p : HState) (key : Bytes) (cs : List Bytes) :
    (hmacFinalize (cs.foldl hmacUpdate (hmacInit p key)) key).1 = Spec.hmac hash key cs.flatten := by
  unfold hmacInit hmacFinalize
  rw [hmacSetKey_eq]
  -- inner digest
  have hfold : cs.foldl hmacUpdate (p.init.update (hmacKeyBlock key 0x36))
      = (hmacKeyBlock key 0x36 :: cs).foldl HState.update p.init := by
    simp only [List.foldl_cons]; rfl
  rw [hfold]
  have hf := foldl_update_spec (hmacKeyBlock key 0x36 :: cs) p.init (init_inv _)
  have hinner : (((hmacKeyBlock key 0x36 :: cs).foldl HState.update p.init).finalize).1
      = hash (hmacKeyBlock key 0x36 ++ cs.flatten) := by
    rw [finalize_spec _ hf.2.2.1, hf.1, hf.2.1, init_pend, List.nil_append, hash_eq_hashPure]; rfl
  -- outer
  show (((hmacSetKey ((hmacKeyBlock key 0x36 :: cs).foldl HState.update p.init).finalize.2 key 0x5C).update
        ((hmacKeyBlock key 0x36 :: cs).foldl HState.update p.init).finalize.1).finalize).1 = _
  rw [hmacSetKey_eq, hinner, init_update2_finalize]
  unfold Spec.hmac
  simp only
  rw [← hmacKeyBlock_spec, ← hmacKeyBlock_spec]

theorem hmac_eq_spec (key m : Bytes) : hmac key m = Spec.hmac hash key m := by
  have := hmac_streaming HState.fresh key [m]
  simpa [hmac, HState.fresh, hmacInit] using this

end TJ
