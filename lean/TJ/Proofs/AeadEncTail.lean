/-
  TJ.Proofs.AeadEncTail — the 0–3 byte tail of tinyjambu_*_aead_encrypt on the regenerated term.
-/
import TJ.Proofs.AeadEncWords
namespace TJ.MiniC.Hoare
open TJ TJ.MiniC TJ.MiniC.PermC TJ.Gen.MiniC

/-- `p = out; x = state->s[2]; *p = (uint8_t)(x ^ w)` -/
theorem out_squeeze_byte {g : AGeo} {M : Array Block} {nv : Nat} {env : Env} {st : St} {s : W4} {kws : List UInt32} {sv : Nat} (ai : AI g M nv env st s kws sv)
    (bo baseo oo : Nat) (XO : Array LByte) (hne : bo ≠ g.bs) (hMo : M[bo]? = some ⟨XO, baseo⟩) (hlt : baseo + XO.size < ptrBase) (hc : oo < XO.size)
    {ov : Nat} (he : env[ov]? = some (mkPtr bo (baseo + oo), .pub)) (t x w : Nat) (d : UInt32)
    (ht : t ≠ sv ∧ t < nv) (hx : x ≠ sv ∧ x < nv) (htx : t ≠ x) (hxw : x ≠ w) (htw : t ≠ w) (hw : EnvHas env w d.toNat)
    {Q : Sig → Env → St → Prop}
    (hQ : ∀ e' s' l, l ≠ Lab.undef → (∀ y, y ≠ t → y ≠ x → e'[y]? = env[y]?) → e'.size = nv →
      AI g (setBlock M bo (XO.setIfInBounds oo ((s.c ^^^ d).toUInt8, l))) nv e' s' s kws sv → Q .normal e' s') :
    RunsTo g.prog (seqs [.assign t (.var ov), .load x .u32 (addrS 2 sv), .store .u8 (.var t) (.cast .u8 .u32 (.bin .bxor .u32 (.var x) (.var w)))]) env st Q := by
  obtain ⟨X, hm, hXs, hws⟩ := ai.obj
  have hes := ai.esz; have hlt' := g.hlt
  have hwc : WV X 2 s.c := hws.2 2 s.c rfl
  obtain ⟨l, hrd, hl⟩ := hwc.read
  simp only [seqs]
  refine runs_seq (Q := fun e s' => e = setVar env t (mkPtr bo (baseo + oo), .pub) ∧ s' = st)
    (runs_assign _ (by simp only [evalE, he, reduceCtorEq, if_false]) ⟨rfl, rfl, rfl⟩) ?_
  intro e1 s1 ⟨he1, hs1⟩; rw [he1, hs1]
  have ai1 : AI g M nv (setVar env t (mkPtr bo (baseo + oo), .pub)) st s kws sv := ai.frame (by rw [size_setVar]; exact hes) (get_set_ne _ _ _ _ ht.1) rfl rfl
  refine runs_seq (Q := fun e s' => e = setVar (setVar env t (mkPtr bo (baseo + oo), .pub)) x (s.c.toNat, l) ∧
      s' = { st with leak := Ev.rd (mkPtr g.bs (g.baseS + 4 * 2)) 4 :: st.leak }) ?_ ?_
  · exact runs_load (mkPtr g.bs (g.baseS + 4 * 2)) g.bs (4 * 2) 4 (s.c.toNat, l) rfl (evalE_addrS g 2 (by decide) ai1.e0)
      (resolve_word hm (4 * 2) (by have := g.hal; omega) (by omega) (by omega)) (by rw [blockBytes_of hm]; exact hrd) ⟨rfl, rfl, rfl⟩
  · intro e2 s2 ⟨he2, hs2⟩; rw [he2, hs2]
    have fr : ∀ y, y ≠ t → y ≠ x → (setVar (setVar env t (mkPtr bo (baseo + oo), .pub)) x (s.c.toNat, l))[y]? = env[y]? := fun y h1 h2 => by
      rw [get_set_ne _ _ _ _ (fun e => h2 e.symm), get_set_ne _ _ _ _ (fun e => h1 e.symm)]
    have hsz2 : (setVar (setVar env t (mkPtr bo (baseo + oo), .pub)) x (s.c.toNat, l)).size = nv := by simp only [size_setVar]; exact hes
    have ai2 : AI g M nv (setVar (setVar env t (mkPtr bo (baseo + oo), .pub)) x (s.c.toNat, l)) { st with leak := Ev.rd (mkPtr g.bs (g.baseS + 4 * 2)) 4 :: st.leak } s kws sv :=
      ai1.frame hsz2 (get_set_ne _ _ _ _ hx.1) rfl rfl
    have hxh : EnvHas (setVar (setVar env t (mkPtr bo (baseo + oo), .pub)) x (s.c.toNat, l)) x s.c.toNat := ⟨l, get_set_eq _ _ _ (by simp only [size_setVar]; omega), hl⟩
    have hwh : EnvHas (setVar (setVar env t (mkPtr bo (baseo + oo), .pub)) x (s.c.toNat, l)) w d.toNat := hw.frame (fr w (fun e => htw e.symm) (fun e => hxw e.symm))
    have hb := ((EvalD.var hxh).bitop (EvalD.var hwh) .bxor .u32 (s.c ^^^ d).toNat ⟨rfl, rfl⟩ (binVal_bxor_u32 s.c d)).cast .u8 .u32
    rw [castVal_u8_u32] at hb
    have hbv : (s.c ^^^ d).toNat % 256 = (s.c ^^^ d).toUInt8.toNat := by rw [UInt32.toNat_toUInt8]
    rw [hbv] at hb
    have e2t : (setVar (setVar env t (mkPtr bo (baseo + oo), .pub)) x (s.c.toNat, l))[t]? = some (mkPtr bo (baseo + oo), .pub) := by
      rw [get_set_ne _ _ _ _ (fun e => htx e.symm), get_set_eq _ _ _ (by omega)]
    refine out_store ai2 bo baseo oo XO hne hMo hlt hc (.var t) _ (s.c ^^^ d).toUInt8
      (by simp only [evalE, e2t, reduceCtorEq, if_false]) hb ?_
    intro s' l' hl' ai'
    exact hQ _ s' l' hl' fr hsz2 ai'


/-- the first five steps of a tail branch: `s[1] ^= 0x50; P; data = bytes(m); s[3] ^= data; s[1] ^= k` -/
theorem enc_tail_head {g : AGeo} (eg : EGeo g) {M : Array Block} {v : Nat} (hv : 11 ≤ v) (pk : Nat) (hpk : pk < 256) {env : Env} {st : St} {s : W4} {kws : List UInt32} {ct rest : Bytes}
    (ei : EI g eg M (v + 47) env st s kws ct rest)
    (t1 x1 t2 x2 t3 x3 : Nat) (loads : List (Nat × Nat)) (E : Expr) (c : UInt32) (k : Nat) (hk : k < 256)
    (h1 : v ≤ t1 ∧ t1 < v + 47 ∧ v ≤ x1 ∧ x1 < v + 47 ∧ t1 ≠ x1) (h2 : v ≤ t2 ∧ t2 < v + 47 ∧ v ≤ x2 ∧ x2 < v + 47 ∧ t2 ≠ x2)
    (h3 : v ≤ t3 ∧ t3 < v + 47 ∧ v ≤ x3 ∧ x3 < v + 47 ∧ t3 ≠ x3)
    (hl0 : loads ≠ []) (hall : ∀ yo ∈ loads, v ≤ yo.1 ∧ yo.1 < v + 47 ∧ yo.2 < rest.length) (hnd : (loads.map Prod.fst).Nodup)
    (hE : ∀ e' : Env, (∀ yo ∈ loads, EnvHas e' yo.1 (rest.getD yo.2 0).toNat) → EvalD e' E c.toNat) (more : Stmt)
    {Q : Sig → Env → St → Prop}
    (hQ : ∀ e' s', AI g M (v + 47) e' s' (addDomain (absorbW (g.P kws pk (addDomain s 0x50)) c) (UInt32.ofNat k)) kws 8 →
      e'[0]? = some (mkPtr eg.bo (eg.baseo + (eg.oo + ct.length)), .pub) → e'[3]? = some (rest.length, .pub) → EnvHas e' 9 c.toNat → RunsTo g.prog more e' s' Q) :
    RunsTo g.prog (.seq (xorPub 1 t1 x1 (rc 80) 8) (.seq (.call none g.pidx [.var 8, rc pk]) (.seq (seqs (loadsOf loads 2 ++ [.assign 9 E]))
      (.seq (xorPub 3 t2 x2 (.var 9) 8) (.seq (xorPub 1 t3 x3 (rc k) 8) more))))) env st Q := by
  obtain ⟨XM, hMm, hXMs, hdm⟩ := ei.hm
  let dg : DGeo g M := ⟨eg.bm, eg.basem, XM, eg.hbm, eg.hbm30, by rw [hXMs]; exact eg.hltm, hMm⟩
  let vs : List (Nat × Nat) := [(0, mkPtr eg.bo (eg.baseo + (eg.oo + ct.length))), (2, mkPtr eg.bm (eg.basem + (eg.moff + ct.length))), (3, rest.length)]
  have vs3 : ∀ xv ∈ vs, xv.1 ≤ 3 := pv3_le
  have vsn : ∀ t, 9 ≤ t → ∀ xv ∈ vs, xv.1 ≠ t := fun t ht xv hxv => by have := vs3 xv hxv; omega
  have pv0 : PubVars vs env := pv3_mk ei.e0 ei.e2 ei.e3
  generalize hs1 : g.P kws pk (addDomain s 0x50) = s1 at hQ
  refine xp_step ei.ai vs pv0 t1 x1 _ (rc pk) 0x50 pk ⟨by omega, by omega⟩ ⟨by omega, by omega⟩ h1.2.2.2.2
    (fun xv hxv => ⟨vsn _ (by omega) xv hxv, vsn _ (by omega) xv hxv⟩) (fun e' _ => evalD_rc80 e') (fun e' => evalE_rc e' pk (by omega)) (by omega) _ ?_
  intro e1 st1 ai1 pv1
  rw [hs1] at ai1
  refine runs_seq (Q := fun e' s' => AI g M (v + 47) e' s' s1 kws 8 ∧ PubVars vs e' ∧ EnvHas e' 9 c.toNat) ?_ ?_
  · refine load_data dg ai1 (eg.moff + ct.length) _ hdm (pv3 pv1).2.1 9 loads _ c ⟨by omega, by omega⟩ hl0
      (fun yo hyo => by have := hall yo hyo; omega) hnd hE ?_
    intro e' s' _ hfr h9 ai'
    exact ⟨rfl, ai', pv1.frame (fun xv hxv => hfr xv.1 (vsn 9 (by omega) xv hxv) (notin_loads vs3 _ (fun yo hyo => by have := hall yo hyo; omega) xv hxv)), h9⟩
  intro e2 st2 ⟨ai2, pv2, h92⟩
  refine runs_seq (Q := fun e' s' => AI g M (v + 47) e' s' (absorbW s1 c) kws 8 ∧ PubVars vs e' ∧ EnvHas e' 9 c.toNat) ?_ ?_
  · refine ai_xor ai2 3 t2 x2 (.var 9) c (by decide) ⟨by omega, by omega⟩ ⟨by omega, by omega⟩ h2.2.2.2.2 ?_ ?_
    · intro e' hfr
      exact EvalD.var (h92.frame (hfr 9 (by omega) (by omega)))
    · intro e' s' _ hfr ai'
      exact ⟨rfl, ai', pv2.frame (fun xv hxv => hfr xv.1 (vsn _ (by omega) xv hxv) (vsn _ (by omega) xv hxv)), h92.frame (hfr 9 (by omega) (by omega))⟩
  intro e3 st3 ⟨ai3, pv3', h93⟩
  refine runs_seq (Q := fun e' s' => AI g M (v + 47) e' s' (addDomain (absorbW s1 c) (UInt32.ofNat k)) kws 8 ∧ PubVars vs e' ∧ EnvHas e' 9 c.toNat) ?_ ?_
  · refine ai_xor ai3 1 t3 x3 _ (UInt32.ofNat k) (by decide) ⟨by omega, by omega⟩ ⟨by omega, by omega⟩ h3.2.2.2.2 (fun e' _ => evalD_small e' k hk) ?_
    intro e' s' _ hfr ai'
    exact ⟨rfl, ai', pv3'.frame (fun xv hxv => hfr xv.1 (vsn _ (by omega) xv hxv) (vsn _ (by omega) xv hxv)), h93.frame (hfr 9 (by omega) (by omega))⟩
  intro e4 st4 ⟨ai4, pv4, h94⟩
  exact hQ e4 st4 ai4 (pv3 pv4).1 (pv3 pv4).2.2 h94

/-- after the tail: `tb` are the last 0–3 ciphertext bytes (the output pointer still points at them) -/
structure EF (g : AGeo) (eg : EGeo g) (M : Array Block) (nv : Nat) (env : Env) (st : St) (s : W4) (kws : List UInt32) (ct tb : Bytes) : Prop where
  ai : AI g M nv env st s kws 8
  e0 : env[0]? = some (mkPtr eg.bo (eg.baseo + (eg.oo + ct.length)), .pub)
  e3 : env[3]? = some (tb.length, .pub)
  ho : ∃ XO, M[eg.bo]? = some ⟨XO, eg.baseo⟩ ∧ XO.size = eg.osz ∧ BytesV XO eg.oo (ct ++ tb) ∧ (∀ p, p < eg.oo ∨ eg.oo + (ct ++ tb).length ≤ p → XO[p]? = eg.XO0[p]?)
  oth0 : ∀ j, j ≠ eg.bo → M[j]? = eg.M0[j]?
  room : eg.oo + (ct ++ tb).length + 8 ≤ eg.osz


theorem byteOf_store (w : UInt32) : byteOf w.toNat 0 = w.toUInt8 ∧ byteOf w.toNat 1 = (w >>> 8).toUInt8 ∧ byteOf w.toNat 2 = (w >>> 16).toUInt8 ∧
    byteOf w.toNat 3 = (w >>> 24).toUInt8 := by
  have := store32_bytes w
  simp only [store32, List.cons.injEq, and_true] at this
  exact ⟨this.1.symm, this.2.1.symm, this.2.2.1.symm, this.2.2.2.symm⟩

theorem EF.of_write {g : AGeo} {eg : EGeo g} {M : Array Block} {nv : Nat} {env e' : Env} {st s' : St} {s sF : W4} {kws : List UInt32} {ct rest tb : Bytes}
    (ei : EI g eg M nv env st s kws ct rest) {XO XO' : Array LByte} (hMo : M[eg.bo]? = some ⟨XO, eg.baseo⟩) (hXOs : XO.size = eg.osz) (hdo : BytesV XO eg.oo ct)
    (hout : ∀ p, p < eg.oo ∨ eg.oo + ct.length ≤ p → XO[p]? = eg.XO0[p]?)
    (ai' : AI g (setBlock M eg.bo XO') nv e' s' sF kws 8) (h0 : e'[0]? = some (mkPtr eg.bo (eg.baseo + (eg.oo + ct.length)), .pub))
    (h3 : e'[3]? = some (rest.length, .pub)) (htl : tb.length = rest.length) (hsz : XO'.size = XO.size)
    (hb : ∀ k c, tb[k]? = some c → BV XO' (eg.oo + ct.length + k) c)
    (hkeep : ∀ p, (p < eg.oo + ct.length ∨ eg.oo + ct.length + tb.length ≤ p) → XO'[p]? = XO[p]?) :
    EF g eg (setBlock M eg.bo XO') nv e' s' sF kws ct tb := by
  have room := ei.room
  refine ⟨ai', h0, by rw [htl]; exact h3, ⟨XO', by rw [getElem?_setBlock', if_pos rfl, hMo]; rfl, by rw [hsz]; exact hXOs, ?_, fun p hp => ?_⟩, fun j hj => ?_, ?_⟩
  · exact bytesV_snoc hdo hsz (by rw [hXOs, htl]; omega) (fun p hp => hkeep p (Or.inl hp)) hb
  · rw [List.length_append] at hp
    rw [hkeep p (by omega), hout p (by omega)]
  · rw [getElem?_setBlock', if_neg hj]; exact ei.oth0 j hj
  · rw [List.length_append, htl]; omega

/-- **the 0–3 byte tail of `tinyjambu_*_aead_encrypt`** -/
theorem enc_tail {g : AGeo} (eg : EGeo g) {M : Array Block} {v : Nat} (hv : 11 ≤ v) (pk : Nat) (hpk : pk < 256) {env : Env} {st : St} {s : W4} {kws : List UInt32} {ct rest : Bytes}
    (ei : EI g eg M (v + 47) env st s kws ct rest) (hl : rest.length < 4) :
    RunsTo g.prog (encTail g.pidx pk v) env st (fun sig e' s' => sig = .normal ∧ ∃ M',
      EF g eg M' (v + 47) e' s' (encBody (g.P kws) pk s rest).1 kws ct (encBody (g.P kws) pk s rest).2) := by
  have cond : ∀ c, c < 256 → evalE env (.bin .eq .u64 (.var 3) (.cast .u64 .i32 (.lit c))) = .ok (b2n (rest.length = c), .pub) := by
    intro c hc
    simp only [evalE, ei.e3, reduceCtorEq, if_false, castVal_u64_i32_lit c hc, BinOp.needsPub2, BinOp.needsPub1, Bool.false_and, Bool.or_self,
      Bool.false_eq_true, binVal, Lab.join_pub_pub]
  have eil : ∀ l, EI g eg M (v + 47) env { st with leak := l } s kws ct rest := fun l =>
    ⟨ei.ai.frame ei.ai.esz rfl rfl rfl, ei.e0, ei.e2, ei.e3, ei.hm, ei.ho, ei.oth0, ei.room⟩
  obtain ⟨XO, hMo, hXOs, hdo, hout⟩ := ei.ho
  have room := ei.room; have hlto := eg.hlto
  unfold encTail
  match rest, hl, ei, cond, eil, room with
  | [], _, ei, cond, eil, room =>
    refine runs_ite_false (by rw [cond 1 (by decide)]; rfl) (runs_ite_false (by rw [cond 2 (by decide)]; rfl) (runs_ite_false (by rw [cond 3 (by decide)]; rfl)
      (runs_skip ⟨rfl, M, (eil _).ai, ei.e0, ei.e3, ⟨XO, hMo, hXOs, by simpa [encBody] using hdo, by simpa [encBody] using hout⟩, ei.oth0, by simpa [encBody] using room⟩)))
  | [b0], _, ei, cond, eil, room =>
    refine runs_ite_true 1 (by rw [cond 1 (by decide)]; rfl) (by decide) ?_
    simp only [seqs]
    refine enc_tail_head eg hv pk hpk (eil _) (v + 14) (v + 15) (v + 17) (v + 18) (v + 19) (v + 20) [(v + 16, 0)] (e8 (v + 16)) b0.toUInt32 1 (by decide)
      ⟨by omega, by omega, by omega, by omega, by omega⟩ ⟨by omega, by omega, by omega, by omega, by omega⟩ ⟨by omega, by omega, by omega, by omega, by omega⟩ (by simp)
      (by intro yo hyo; simp only [List.mem_singleton] at hyo; rw [hyo]; simp) (by simp)
      (fun e' hh => evalD_e8 (b0 := b0) (hh (v + 16, 0) (by simp))) _ ?_
    intro e' s' ai' h0 h3 h9
    simp only [List.length_cons, List.length_nil] at room
    refine out_squeeze_byte ai' eg.bo eg.baseo (eg.oo + ct.length) XO eg.hbo hMo (by rw [hXOs]; exact hlto) (by omega) h0 (v + 21) (v + 22) 9 b0.toUInt32
      ⟨by omega, by omega⟩ ⟨by omega, by omega⟩ (by omega) (by omega) (by omega) h9 ?_
    intro e'' s'' l hl hfr hsz ai''
    refine ⟨rfl, _, EF.of_write ei hMo hXOs hdo hout ai'' (by rw [hfr 0 (by omega) (by omega)]; exact h0) (by rw [hfr 3 (by omega) (by omega)]; exact h3) rfl
      (by simp) (fun k c hk => ?_) (fun p hp => ?_)⟩
    · cases k with
      | zero =>
        have e : c = ((g.P kws pk (addDomain s 0x50)).c ^^^ b0.toUInt32).toUInt8 := by simpa [encBody, squeeze, addDomain, absorbW] using hk.symm
        exact ⟨l, by rw [e, Array.getElem?_setIfInBounds]; simp [addDomain, absorbW]; omega, hl⟩
      | succ k => simp [encBody] at hk
    · rw [Array.getElem?_setIfInBounds, if_neg (by simp [encBody] at hp; omega)]
  | [b0, b1], _, ei, cond, eil, room =>
    refine runs_ite_false (by rw [cond 1 (by decide)]; rfl) (runs_ite_true 1 (by rw [cond 2 (by decide)]; rfl) (by decide) ?_)
    simp only [seqs]
    refine enc_tail_head eg hv pk hpk (eil _) (v + 23) (v + 24) (v + 27) (v + 28) (v + 29) (v + 30) [(v + 25, 1), (v + 26, 0)] (e16 (v + 25) (v + 26)) (load16 b0 b1) 2 (by decide)
      ⟨by omega, by omega, by omega, by omega, by omega⟩ ⟨by omega, by omega, by omega, by omega, by omega⟩ ⟨by omega, by omega, by omega, by omega, by omega⟩ (by simp)
      (by intro yo hyo; simp only [List.mem_cons, List.mem_nil_iff, or_false] at hyo; rcases hyo with h | h <;> rw [h] <;> simp)
      (by simp only [List.map_cons, List.map_nil, List.nodup_cons, List.mem_cons, List.mem_nil_iff, or_false, not_false_eq_true, List.nodup_nil, and_true]; omega)
      (fun e' hh => evalD_e16 (b0 := b0) (b1 := b1) (hh (v + 25, 1) (by simp)) (hh (v + 26, 0) (by simp))) _ ?_
    intro e' s' ai' h0 h3 h9
    simp only [List.length_cons, List.length_nil] at room
    generalize hsF : addDomain (absorbW (g.P kws pk (addDomain s 0x50)) (load16 b0 b1)) (UInt32.ofNat 2) = sF at ai'
    refine runs_seq (Q := fun e2 s2 => AI g M (v + 47) e2 s2 sF kws 8 ∧ e2[0]? = some (mkPtr eg.bo (eg.baseo + (eg.oo + ct.length)), .pub) ∧
        e2[3]? = some (2, .pub) ∧ EnvHas e2 9 (load16 b0 b1 ^^^ sF.c).toNat) ?_ ?_
    · refine squeeze_xor ai' (v + 31) 9 (load16 b0 b1) ⟨by omega, by omega⟩ ⟨by omega, by omega⟩ (by omega) h9 ?_
      intro e2 s2 _ hfr h92 ai2
      exact ⟨rfl, ai2, by rw [hfr 0 (by omega) (by omega)]; exact h0, by rw [hfr 3 (by omega) (by omega)]; exact h3, h92⟩
    intro e2 s2 ⟨ai2, h20, h23, h29⟩
    refine (out_bytes eg.bo eg.baseo (eg.oo + ct.length) eg.hbo eg.hbo30 (load16 b0 b1 ^^^ sF.c) [v + 32, v + 33] 0 M XO e2 s2 ai2 hMo (by rw [hXOs]; exact hlto)
      (by rw [hXOs]; simp; omega) (by simp) h20 h29
      (by intro t ht; simp only [List.mem_cons, List.mem_nil_iff, or_false] at ht; rcases ht with h | h <;> rw [h] <;> omega) (by simp)).weaken ?_
    intro sig e3 s3 ⟨hs, hsz3, hfr3, XO', ai3, hXO', hbv, hkeep⟩
    have hF : (encBody (g.P kws) pk s [b0, b1]).1 = sF := by rw [← hsF]; rfl
    have nm : ∀ y, y < 11 → y ∉ [v + 32, v + 33] := by intro y hy; simp only [List.mem_cons, List.mem_nil_iff, or_false]; omega
    refine ⟨hs, _, EF.of_write ei hMo hXOs hdo hout (by rw [hF]; exact ai3) (by rw [hfr3 0 (nm 0 (by omega))]; exact h20) (by rw [hfr3 3 (nm 3 (by omega))]; exact h23) rfl hXO'
      (fun k c hk => ?_) (fun p hp => hkeep p (by simpa [encBody] using hp))⟩
    have hb := byteOf_store (load16 b0 b1 ^^^ sF.c)
    have hsq : squeeze sF = sF.c := rfl
    match k, hk with
    | 0, hk =>
      have e : c = (load16 b0 b1 ^^^ sF.c).toUInt8 := by rw [← hsF]; simpa [encBody, squeeze, addDomain, absorbW] using hk.symm
      rw [e, ← hb.1]; exact hbv 0 (by simp)
    | 1, hk =>
      have e : c = ((load16 b0 b1 ^^^ sF.c) >>> 8).toUInt8 := by rw [← hsF]; simpa [encBody, squeeze, addDomain, absorbW] using hk.symm
      rw [e, ← hb.2.1]; exact hbv 1 (by simp)
    | k + 2, hk => simp [encBody] at hk
  | [b0, b1, b2], _, ei, cond, eil, room =>
    refine runs_ite_false (by rw [cond 1 (by decide)]; rfl) (runs_ite_false (by rw [cond 2 (by decide)]; rfl) (runs_ite_true 1 (by rw [cond 3 (by decide)]; rfl) (by decide) ?_))
    simp only [seqs]
    refine enc_tail_head eg hv pk hpk (eil _) (v + 34) (v + 35) (v + 39) (v + 40) (v + 41) (v + 42) [(v + 36, 1), (v + 37, 0), (v + 38, 2)] (e24 (v + 36) (v + 37) (v + 38)) (load24 b0 b1 b2) 3 (by decide)
      ⟨by omega, by omega, by omega, by omega, by omega⟩ ⟨by omega, by omega, by omega, by omega, by omega⟩ ⟨by omega, by omega, by omega, by omega, by omega⟩ (by simp)
      (by intro yo hyo; simp only [List.mem_cons, List.mem_nil_iff, or_false] at hyo; rcases hyo with h | h | h <;> rw [h] <;> simp)
      (by simp only [List.map_cons, List.map_nil, List.nodup_cons, List.mem_cons, List.mem_nil_iff, or_false, not_false_eq_true, List.nodup_nil, and_true]; omega)
      (fun e' hh => evalD_e24 (b0 := b0) (b1 := b1) (b2 := b2) (hh (v + 36, 1) (by simp)) (hh (v + 37, 0) (by simp)) (hh (v + 38, 2) (by simp))) _ ?_
    intro e' s' ai' h0 h3 h9
    simp only [List.length_cons, List.length_nil] at room
    generalize hsF : addDomain (absorbW (g.P kws pk (addDomain s 0x50)) (load24 b0 b1 b2)) (UInt32.ofNat 3) = sF at ai'
    refine runs_seq (Q := fun e2 s2 => AI g M (v + 47) e2 s2 sF kws 8 ∧ e2[0]? = some (mkPtr eg.bo (eg.baseo + (eg.oo + ct.length)), .pub) ∧
        e2[3]? = some (3, .pub) ∧ EnvHas e2 9 (load24 b0 b1 b2 ^^^ sF.c).toNat) ?_ ?_
    · refine squeeze_xor ai' (v + 43) 9 (load24 b0 b1 b2) ⟨by omega, by omega⟩ ⟨by omega, by omega⟩ (by omega) h9 ?_
      intro e2 s2 _ hfr h92 ai2
      exact ⟨rfl, ai2, by rw [hfr 0 (by omega) (by omega)]; exact h0, by rw [hfr 3 (by omega) (by omega)]; exact h3, h92⟩
    intro e2 s2 ⟨ai2, h20, h23, h29⟩
    refine (out_bytes eg.bo eg.baseo (eg.oo + ct.length) eg.hbo eg.hbo30 (load24 b0 b1 b2 ^^^ sF.c) [v + 44, v + 45, v + 46] 0 M XO e2 s2 ai2 hMo (by rw [hXOs]; exact hlto)
      (by rw [hXOs]; simp; omega) (by simp) h20 h29
      (by intro t ht; simp only [List.mem_cons, List.mem_nil_iff, or_false] at ht; rcases ht with h | h | h <;> rw [h] <;> omega) (by simp)).weaken ?_
    intro sig e3 s3 ⟨hs, hsz3, hfr3, XO', ai3, hXO', hbv, hkeep⟩
    have hF : (encBody (g.P kws) pk s [b0, b1, b2]).1 = sF := by rw [← hsF]; rfl
    have nm : ∀ y, y < 11 → y ∉ [v + 44, v + 45, v + 46] := by intro y hy; simp only [List.mem_cons, List.mem_nil_iff, or_false]; omega
    refine ⟨hs, _, EF.of_write ei hMo hXOs hdo hout (by rw [hF]; exact ai3) (by rw [hfr3 0 (nm 0 (by omega))]; exact h20) (by rw [hfr3 3 (nm 3 (by omega))]; exact h23) rfl hXO'
      (fun k c hk => ?_) (fun p hp => hkeep p (by simpa [encBody] using hp))⟩
    have hb := byteOf_store (load24 b0 b1 b2 ^^^ sF.c)
    match k, hk with
    | 0, hk =>
      have e : c = (load24 b0 b1 b2 ^^^ sF.c).toUInt8 := by rw [← hsF]; simpa [encBody, squeeze, addDomain, absorbW] using hk.symm
      rw [e, ← hb.1]; exact hbv 0 (by simp)
    | 1, hk =>
      have e : c = ((load24 b0 b1 b2 ^^^ sF.c) >>> 8).toUInt8 := by rw [← hsF]; simpa [encBody, squeeze, addDomain, absorbW] using hk.symm
      rw [e, ← hb.2.1]; exact hbv 1 (by simp)
    | 2, hk =>
      have e : c = ((load24 b0 b1 b2 ^^^ sF.c) >>> 16).toUInt8 := by rw [← hsF]; simpa [encBody, squeeze, addDomain, absorbW] using hk.symm
      rw [e, ← hb.2.2.1]; exact hbv 2 (by simp)
    | k + 3, hk => simp [encBody] at hk

end TJ.MiniC.Hoare
