/-
  TJ.Proofs.VWorld — blocks seen as words and bytes whose labels are arbitrary but defined ("V-world"): the view in which the functional
  theorems about the regenerated AEAD code are stated.  Canonical-labelling theorems (permutations) enter through TJ.MiniC.exec_lower.
-/
import TJ.Proofs.HashInit
import TJ.Proofs.PermC192
namespace TJ.MiniC.Hoare
open TJ TJ.MiniC TJ.MiniC.PermC TJ.Gen.MiniC

/-- byte `q` of `X` holds `b` with a defined label -/
def BV (X : Array LByte) (q : Nat) (b : UInt8) : Prop := ∃ l, X[q]? = some (b, l) ∧ l ≠ Lab.undef
/-- word `i` (bytes `4i .. 4i+3`, little-endian) of `X` holds `v` -/
def WV (X : Array LByte) (i : Nat) (v : UInt32) : Prop := ∀ j, j < 4 → BV X (4 * i + j) (byteOf v.toNat j)
/-- the first words of `X` are `ws` -/
def WordsV (X : Array LByte) (ws : List UInt32) : Prop := 4 * ws.length ≤ X.size ∧ ∀ i v, ws[i]? = some v → WV X i v
/-- the bytes of `X` from `off` on are `bs` -/
def BytesV (X : Array LByte) (off : Nat) (bs : Bytes) : Prop := off + bs.length ≤ X.size ∧ ∀ k b, bs[k]? = some b → BV X (off + k) b

theorem BV.writeLE_other {X : Array LByte} {q : Nat} {b : UInt8} (h : BV X q b) (off v n : Nat) (l : Lab) (hq : q < off ∨ off + n ≤ q) :
    BV (writeLE X off v l n) q b := by
  obtain ⟨l', hx, hl⟩ := h
  exact ⟨l', by rw [getElem?_writeLE_out _ _ _ _ _ _ hq]; exact hx, hl⟩

theorem BV.writeLE_same (X : Array LByte) (off v n j : Nat) (l : Lab) (hl : l ≠ .undef) (hj : j < n) (hs : off + n ≤ X.size) :
    BV (writeLE X off v l n) (off + j) (byteOf v j) :=
  ⟨l, getElem?_writeLE_in l n X off v j hj hs, hl⟩

theorem WV.writeLE_other {X : Array LByte} {i : Nat} {w : UInt32} (h : WV X i w) (off v n : Nat) (l : Lab) (hq : 4 * i + 4 ≤ off ∨ off + n ≤ 4 * i) :
    WV (writeLE X off v l n) i w := fun j hj => (h j hj).writeLE_other off v n l (by omega)

theorem WV.writeLE_same (X : Array LByte) (i : Nat) (v : UInt32) (l : Lab) (hl : l ≠ .undef) (hs : 4 * i + 4 ≤ X.size) :
    WV (writeLE X (4 * i) v.toNat l 4) i v := fun j hj => BV.writeLE_same X (4 * i) v.toNat 4 j l hl hj hs

theorem WV.read {X : Array LByte} {i : Nat} {v : UInt32} (h : WV X i v) : ∃ l, readLE X (4 * i) 4 = some (v.toNat, l) ∧ l ≠ Lab.undef :=
  readLE_of_bytesV X (4 * i) v.toNat (UInt32.toNat_lt v) h

theorem BV.read {X : Array LByte} {q : Nat} {b : UInt8} (h : BV X q b) : ∃ l, readLE X q 1 = some (b.toNat, l) ∧ l ≠ Lab.undef := by
  obtain ⟨l, hx, hl⟩ := h
  refine ⟨l.join .pub, ?_, by cases l <;> simp [Lab.join] at *⟩
  simp only [readLE, hx, hl, if_false, Nat.mul_zero, Nat.add_zero]

/-- updating word `i` of a word list -/
theorem WordsV.set {X : Array LByte} {ws : List UInt32} (h : WordsV X ws) (i : Nat) (hi : i < ws.length) (v : UInt32) (l : Lab) (hl : l ≠ .undef) :
    WordsV (writeLE X (4 * i) v.toNat l 4) (ws.set i v) := by
  obtain ⟨hsz, hw⟩ := h
  refine ⟨by rw [size_writeLE, List.length_set]; exact hsz, fun k u hu => ?_⟩
  by_cases hki : k = i
  · subst hki
    rw [List.getElem?_set_self hi] at hu
    have : v = u := by injection hu
    rw [← this]
    exact WV.writeLE_same X k v l hl (by omega)
  · rw [List.getElem?_set_ne (fun e => hki e.symm)] at hu
    exact (hw k u hu).writeLE_other _ _ _ _ (by omega)

/-- bytes outside the first words survive a word update -/
theorem BytesV.writeLE_other {X : Array LByte} {off : Nat} {bs : Bytes} (h : BytesV X off bs) (o v n : Nat) (l : Lab) (hq : off + bs.length ≤ o ∨ o + n ≤ off) :
    BytesV (writeLE X o v l n) off bs := by
  obtain ⟨hsz, hb⟩ := h
  refine ⟨by rw [size_writeLE]; exact hsz, fun k b hk => (hb k b hk).writeLE_other o v n l ?_⟩
  have : k < bs.length := by
    by_cases h : k < bs.length
    · exact h
    · rw [List.getElem?_eq_none (by omega)] at hk; cases hk
  omega

theorem BV.lower {X Y : Array LByte} (hle : BytesLe Y X) {q : Nat} {b : UInt8} (h : BV X q b) : BV Y q b := by
  obtain ⟨l, hx, hl⟩ := h
  have hi := hle q
  rw [hx] at hi
  cases hy : Y[q]? with
  | none => rw [hy] at hi; exact hi.elim
  | some y =>
    rw [hy] at hi
    obtain ⟨c, l'⟩ := y
    have e : c = b := hi.1
    subst e
    exact ⟨l', hy, fun hu => by have := hi.2; simp only [hu] at this; cases l <;> first | exact absurd rfl hl | exact this.elim⟩

theorem WV.lower {X Y : Array LByte} (hle : BytesLe Y X) {i : Nat} {v : UInt32} (h : WV X i v) : WV Y i v := fun j hj => (h j hj).lower hle
theorem WordsV.lower {X Y : Array LByte} (hle : BytesLe Y X) {ws : List UInt32} (h : WordsV X ws) : WordsV Y ws :=
  ⟨by rw [hle.size_eq]; exact h.1, fun i v hv => (h.2 i v hv).lower hle⟩

theorem BV.raised {X : Array LByte} {q : Nat} {b : UInt8} (h : BV X q b) (n : Nat) (hq : q < n) : (raiseTo n X)[q]? = some (b, Lab.sec) := by
  obtain ⟨l, hx, hl⟩ := h
  rw [getElem?_raiseTo, hx]
  simp only [Option.map, hq, if_true, hl, if_false]

theorem WV.raised_read {X : Array LByte} {i : Nat} {v : UInt32} (h : WV X i v) (n : Nat) (hi : 4 * i + 4 ≤ n) :
    readLE (raiseTo n X) (4 * i) 4 = some (v.toNat, .sec) :=
  readLE_of_bytes _ (4 * i) v.toNat (UInt32.toNat_lt v) (fun j hj => (h j hj).raised n (by omega))

theorem bytesAfter_words (X : Array LByte) (a b c d : UInt32) (hs : 16 ≤ X.size) :
    WV (bytesAfter X a.toNat b.toNat c.toNat d.toNat) 0 a ∧ WV (bytesAfter X a.toNat b.toNat c.toNat d.toNat) 1 b ∧
    WV (bytesAfter X a.toNat b.toNat c.toNat d.toNat) 2 c ∧ WV (bytesAfter X a.toNat b.toNat c.toNat d.toNat) 3 d := by
  unfold bytesAfter
  have s1 : (writeLE X 0 a.toNat .sec 4).size = X.size := size_writeLE _ _ _ _ _
  have s2 : (writeLE (writeLE X 0 a.toNat .sec 4) 4 b.toNat .sec 4).size = X.size := by rw [size_writeLE]; exact s1
  have s3 : (writeLE (writeLE (writeLE X 0 a.toNat .sec 4) 4 b.toNat .sec 4) 8 c.toNat .sec 4).size = X.size := by rw [size_writeLE]; exact s2
  refine ⟨?_, ?_, ?_, ?_⟩
  · exact (((WV.writeLE_same X 0 a .sec (by decide) (by omega)).writeLE_other 4 _ 4 _ (by omega)).writeLE_other 8 _ 4 _ (by omega)).writeLE_other 12 _ 4 _ (by omega)
  · exact ((WV.writeLE_same _ 1 b .sec (by decide) (by omega)).writeLE_other 8 _ 4 _ (by omega)).writeLE_other 12 _ 4 _ (by omega)
  · exact (WV.writeLE_same _ 2 c .sec (by decide) (by omega)).writeLE_other 12 _ 4 _ (by omega)
  · exact WV.writeLE_same _ 3 d .sec (by decide) (by omega)

theorem bytesAfter_keep {X : Array LByte} {i : Nat} {v : UInt32} (h : WV X i v) (hi : 4 ≤ i) (a b c d : Nat) : WV (bytesAfter X a b c d) i v := by
  unfold bytesAfter
  exact (((h.writeLE_other 0 _ 4 _ (by omega)).writeLE_other 4 _ 4 _ (by omega)).writeLE_other 8 _ 4 _ (by omega)).writeLE_other 12 _ 4 _ (by omega)

/-- from the canonical-labelling run of a permutation call to the run on an object with any defined labels -/
theorem perm_callV_of_canon (prog : Program) (fn : Nat) (env : Env) (st : St) (ep er : Expr) (bs baseS : Nat) (X : Array LByte) (s P : W4) (kws : List UInt32)
    (hb : st.mem[bs]? = some ⟨X, baseS⟩) (hw : WordsV X ([s.a, s.b, s.c, s.d] ++ kws)) (hXs : X.size = 16 + 4 * kws.length)
    (hcanon : ∃ n leak', exec prog n (.call none fn [ep, er]) env { st with mem := setBlock st.mem bs (raiseTo X.size X) } =
      .ok .normal env { st with leak := leak', mem := (setBlock (setBlock st.mem bs (raiseTo X.size X)) bs
        (bytesAfter (raiseTo X.size X) P.a.toNat P.b.toNat P.c.toNat P.d.toNat)) }) :
    RunsTo prog (.call none fn [ep, er]) env st (fun sig e s' => sig = .normal ∧ EnvLe e env ∧ s'.ent = st.ent ∧ s'.mem.size = st.mem.size ∧
      OthLe bs s'.mem st.mem ∧
      ∃ blk', s'.mem[bs]? = some blk' ∧ blk'.base = baseS ∧ blk'.bytes.size = X.size ∧ WordsV blk'.bytes ([P.a, P.b, P.c, P.d] ++ kws)) := by
  let X' := raiseTo X.size X
  let hi : St := { st with mem := setBlock st.mem bs X' }
  have hbh : hi.mem[bs]? = some ⟨X', baseS⟩ := by show (setBlock st.mem bs _)[bs]? = _; rw [getElem?_setBlock', if_pos rfl, hb]; rfl
  have hle : StLe st hi := ⟨memLe_setBlock hb (bytesLe_raiseTo X.size X), rfl, rfl⟩
  have hX's : X'.size = X.size := size_raiseTo _ _
  obtain ⟨n, leak', hcall⟩ := hcanon
  have hAw0 : WordsV (bytesAfter X' P.a.toNat P.b.toNat P.c.toNat P.d.toNat) ([P.a, P.b, P.c, P.d] ++ kws) := by
    refine ⟨?_, fun i v hv => ?_⟩
    · rw [size_bytesAfter, hX's]; simp only [List.length_append, List.length_cons, List.length_nil]; omega
    · obtain ⟨w0, w1, w2, w3⟩ := bytesAfter_words X' P.a P.b P.c P.d (by rw [hX's]; omega)
      by_cases hi4 : i < 4
      · rw [List.getElem?_append_left (by simp; omega)] at hv
        match i, hi4, hv with
        | 0, _, hv => have e : v = P.a := by simpa using hv.symm
                      subst e; exact w0
        | 1, _, hv => have e : v = P.b := by simpa using hv.symm
                      subst e; exact w1
        | 2, _, hv => have e : v = P.c := by simpa using hv.symm
                      subst e; exact w2
        | 3, _, hv => have e : v = P.d := by simpa using hv.symm
                      subst e; exact w3
      · rw [List.getElem?_append_right (by simp; omega)] at hv
        simp only [List.length_cons, List.length_nil] at hv
        have hi' : i - 4 < kws.length := by
          by_cases h : i - 4 < kws.length
          · exact h
          · rw [List.getElem?_eq_none (by omega)] at hv; cases hv
        have hwi : WV X' i v := by
          intro j hj
          have := (hw.2 i v (by rw [List.getElem?_append_right (by simp; omega)]; simpa using hv)) j hj
          exact ⟨.sec, this.raised X.size (by omega), by decide⟩
        exact bytesAfter_keep hwi (by omega) _ _ _ _
  have hAs0 : (bytesAfter X' P.a.toNat P.b.toNat P.c.toNat P.d.toNat).size = X.size := by rw [size_bytesAfter, hX's]
  obtain ⟨A, hA⟩ : ∃ A, A = bytesAfter X' P.a.toNat P.b.toNat P.c.toNat P.d.toNat := ⟨_, rfl⟩
  rw [← hA] at hcall hAw0 hAs0
  have hrun : RunsTo prog (.call none fn [ep, er]) env hi (fun sig e s' => sig = .normal ∧ e = env ∧ s'.ent = st.ent ∧ s'.mem = setBlock hi.mem bs A) :=
    ⟨_, _, _, _, hcall, rfl, rfl, rfl, rfl⟩
  refine (hrun.lower (envLe_refl env) hle).weaken ?_
  intro sig e s' ⟨sig2, e', s2, ⟨hs2, he2, hent2, hm2⟩, hg, hee, hss⟩
  subst hs2 he2
  have hsig : sig = .normal := by cases sig <;> first | rfl | exact hg.elim
  have hb2 : s2.mem[bs]? = some ⟨A, baseS⟩ := by rw [hm2, getElem?_setBlock', if_pos rfl, hbh]; rfl
  have hrel := hss.mem bs
  rw [hb2] at hrel
  refine ⟨hsig, hee, by rw [hss.ent, hent2], ?_, ?_, ?_⟩
  · rw [hss.mem.size_eq, hm2, size_setBlock']; show (setBlock st.mem bs _).size = _; rw [size_setBlock']
  · intro j hj
    have := hss.mem j
    rw [hm2, getElem?_setBlock', if_neg hj] at this
    have e : hi.mem[j]? = st.mem[j]? := by show (setBlock st.mem bs _)[j]? = _; rw [getElem?_setBlock', if_neg hj]
    rw [e] at this; exact this
  · cases hb1 : s'.mem[bs]? with
    | none => rw [hb1] at hrel; exact hrel.elim
    | some blk' =>
      rw [hb1] at hrel
      exact ⟨blk', rfl, hrel.1, by rw [hrel.2.size_eq, hAs0], WordsV.lower hrel.2 hAw0⟩

/-- reads of the raised object, for the canonical-labelling theorems -/
theorem raised_word {X : Array LByte} {ws : List UInt32} (hw : WordsV X ws) (i : Nat) (v : UInt32) (hv : ws[i]? = some v) :
    readLE (raiseTo X.size X) (4 * i) 4 = some (v.toNat, .sec) := by
  have hi : i < ws.length := by
    by_cases h : i < ws.length
    · exact h
    · rw [List.getElem?_eq_none (by omega)] at hv; cases hv
  exact (hw.2 i v hv).raised_read X.size (by have := hw.1; omega)

/-- what a keyed permutation call does to a state object with `nk` key words, in V-world -/
def PermCallSpec (prog : Program) (pidx nk : Nat) (P : List UInt32 → Nat → W4 → W4) : Prop :=
  ∀ (env : Env) (st : St) (ep er : Expr) (r bs baseS : Nat) (X : Array LByte) (s : W4) (kws : List UInt32),
    kws.length = nk → r < 4294967296 → evalE env ep = .ok (mkPtr bs baseS, .pub) → evalE env er = .ok (r, .pub) →
    st.mem[bs]? = some ⟨X, baseS⟩ → baseS % 4 = 0 → baseS + X.size < ptrBase → bs < 2 ^ 30 →
    WordsV X ([s.a, s.b, s.c, s.d] ++ kws) → X.size = 16 + 4 * nk →
    RunsTo prog (.call none pidx [ep, er]) env st (fun sig e s' => sig = .normal ∧ EnvLe e env ∧ s'.ent = st.ent ∧ s'.mem.size = st.mem.size ∧
      OthLe bs s'.mem st.mem ∧
      ∃ blk', s'.mem[bs]? = some blk' ∧ blk'.base = baseS ∧ blk'.bytes.size = X.size ∧
        WordsV blk'.bytes ([(P kws r s).a, (P kws r s).b, (P kws r s).c, (P kws r s).d] ++ kws))

theorem list4 {α} (l : List α) (h : l.length = 4) : ∃ a b c d, l = [a, b, c, d] := by
  match l, h with
  | [a, b, c, d], _ => exact ⟨a, b, c, d, rfl⟩

theorem perm128_spec (prog : Program) (pidx : Nat) (hprog : prog[pidx]? = some f_tinyjambu_permutation_128) :
    PermCallSpec prog pidx 4 (fun k r s => perm128 k r s) := by
  intro env st ep er r bs baseS X s kws hlen hr hep her hb hal hlt hbs30 hw hXs
  obtain ⟨k0, k1, k2, k3, rfl⟩ := list4 kws hlen
  have hXs' : X.size = 16 + 4 * [k0, k1, k2, k3].length := by rw [hXs]; rfl
  refine perm_callV_of_canon prog pidx env st ep er bs baseS X s (perm128 [k0, k1, k2, k3] r s) [k0, k1, k2, k3] hb hw hXs' ?_
  have hX's : (raiseTo X.size X).size = X.size := size_raiseTo _ _
  have hbh : (setBlock st.mem bs (raiseTo X.size X))[bs]? = some ⟨raiseTo X.size X, baseS⟩ := by rw [getElem?_setBlock', if_pos rfl, hb]; rfl
  have km : KM { st with mem := setBlock st.mem bs (raiseTo X.size X) } bs ⟨raiseTo X.size X, baseS⟩ 16 k0.toNat k1.toNat k2.toNat k3.toNat k0.toNat k1.toNat k2.toNat k3.toNat :=
    ⟨hbh, hal, by show baseS + (raiseTo X.size X).size < ptrBase; rw [hX's]; exact hlt, hbs30, by show 32 ≤ (raiseTo X.size X).size; rw [hX's, hXs]; decide,
     by decide, by show 16 + 16 ≤ (raiseTo X.size X).size; rw [hX's, hXs]; decide,
     raised_word hw 4 k0 rfl, raised_word hw 5 k1 rfl, raised_word hw 6 k2 rfl, raised_word hw 7 k3 rfl,
     raised_word hw 4 k0 rfl, raised_word hw 5 k1 rfl, raised_word hw 6 k2 rfl, raised_word hw 7 k3 rfl⟩
  obtain ⟨leak', hcall⟩ := permG_call prog pidx f_tinyjambu_permutation_128 16 hprog body128_eq rfl rfl rfl (fun i => i) (fun _ => rfl) 0 env _ ep er r
    s.a.toNat s.b.toNat s.c.toNat s.d.toNat _ _ _ _ _ _ _ _ bs ⟨raiseTo X.size X, baseS⟩ hr km hep her
    (raised_word hw 0 s.a rfl) (raised_word hw 1 s.b rfl) (raised_word hw 2 s.c rfl) (raised_word hw 3 s.d rfl)
  have hN := permNG_eq128 [k0, k1, k2, k3] r s
  simp only [toN, kw, List.getD, List.getElem?_cons_zero, List.getElem?_cons_succ, Option.getD] at hN
  simp only [hN] at hcall
  exact ⟨_, leak', hcall⟩

theorem list8 {α} (l : List α) (h : l.length = 8) : ∃ a b c d e f g i, l = [a, b, c, d, e, f, g, i] := by
  match l, h with
  | [a, b, c, d, e, f, g, i], _ => exact ⟨a, b, c, d, e, f, g, i, rfl⟩

theorem list6 {α} (l : List α) (h : l.length = 6) : ∃ a b c d e f, l = [a, b, c, d, e, f] := by
  match l, h with
  | [a, b, c, d, e, f], _ => exact ⟨a, b, c, d, e, f, rfl⟩

theorem perm256_spec (prog : Program) (pidx : Nat) (hprog : prog[pidx]? = some f_tinyjambu_permutation_256) :
    PermCallSpec prog pidx 8 (fun k r s => perm256 k r s) := by
  intro env st ep er r bs baseS X s kws hlen hr hep her hb hal hlt hbs30 hw hXs
  obtain ⟨k0, k1, k2, k3, k4, k5, k6, k7, rfl⟩ := list8 kws hlen
  have hXs' : X.size = 16 + 4 * [k0, k1, k2, k3, k4, k5, k6, k7].length := by rw [hXs]; rfl
  refine perm_callV_of_canon prog pidx env st ep er bs baseS X s (perm256 [k0, k1, k2, k3, k4, k5, k6, k7] r s) _ hb hw hXs' ?_
  have hX's : (raiseTo X.size X).size = X.size := size_raiseTo _ _
  have hbh : (setBlock st.mem bs (raiseTo X.size X))[bs]? = some ⟨raiseTo X.size X, baseS⟩ := by rw [getElem?_setBlock', if_pos rfl, hb]; rfl
  have km : KM { st with mem := setBlock st.mem bs (raiseTo X.size X) } bs ⟨raiseTo X.size X, baseS⟩ 32 k0.toNat k1.toNat k2.toNat k3.toNat k4.toNat k5.toNat k6.toNat k7.toNat :=
    ⟨hbh, hal, by show baseS + (raiseTo X.size X).size < ptrBase; rw [hX's]; exact hlt, hbs30, by show 32 ≤ (raiseTo X.size X).size; rw [hX's, hXs]; decide,
     by decide, by show 32 + 16 ≤ (raiseTo X.size X).size; rw [hX's, hXs]; decide,
     raised_word hw 4 k0 rfl, raised_word hw 5 k1 rfl, raised_word hw 6 k2 rfl, raised_word hw 7 k3 rfl,
     raised_word hw 8 k4 rfl, raised_word hw 9 k5 rfl, raised_word hw 10 k6 rfl, raised_word hw 11 k7 rfl⟩
  obtain ⟨leak', hcall⟩ := permG_call prog pidx f_tinyjambu_permutation_256 32 hprog body256_eq rfl rfl rfl (fun i => i) (fun _ => rfl) 0 env _ ep er r
    s.a.toNat s.b.toNat s.c.toNat s.d.toNat _ _ _ _ _ _ _ _ bs ⟨raiseTo X.size X, baseS⟩ hr km hep her
    (raised_word hw 0 s.a rfl) (raised_word hw 1 s.b rfl) (raised_word hw 2 s.c rfl) (raised_word hw 3 s.d rfl)
  have hN := permNG_eq256 [k0, k1, k2, k3, k4, k5, k6, k7] r s
  simp only [toN, kw, List.getD, List.getElem?_cons_zero, List.getElem?_cons_succ, Option.getD] at hN
  simp only [hN] at hcall
  exact ⟨_, leak', hcall⟩

theorem perm192_spec (prog : Program) (pidx : Nat) (hprog : prog[pidx]? = some f_tinyjambu_permutation_192) :
    PermCallSpec prog pidx 6 (fun k r s => perm192 k r s) := by
  intro env st ep er r bs baseS X s kws hlen hr hep her hb hal hlt hbs30 hw hXs
  obtain ⟨k0, k1, k2, k3, k4, k5, rfl⟩ := list6 kws hlen
  have hXs' : X.size = 16 + 4 * [k0, k1, k2, k3, k4, k5].length := by rw [hXs]; rfl
  refine perm_callV_of_canon prog pidx env st ep er bs baseS X s (perm192 [k0, k1, k2, k3, k4, k5] r s) _ hb hw hXs' ?_
  have hX's : (raiseTo X.size X).size = X.size := size_raiseTo _ _
  have hbh : (setBlock st.mem bs (raiseTo X.size X))[bs]? = some ⟨raiseTo X.size X, baseS⟩ := by rw [getElem?_setBlock', if_pos rfl, hb]; rfl
  have km : KM192 { st with mem := setBlock st.mem bs (raiseTo X.size X) } bs ⟨raiseTo X.size X, baseS⟩ k0.toNat k1.toNat k2.toNat k3.toNat k4.toNat k5.toNat :=
    ⟨hbh, hal, by show baseS + (raiseTo X.size X).size < ptrBase; rw [hX's]; exact hlt, hbs30, by show 40 ≤ (raiseTo X.size X).size; rw [hX's, hXs]; decide,
     raised_word hw 4 k0 rfl, raised_word hw 5 k1 rfl, raised_word hw 6 k2 rfl, raised_word hw 7 k3 rfl, raised_word hw 8 k4 rfl, raised_word hw 9 k5 rfl⟩
  obtain ⟨leak', hcall⟩ := perm192_call prog pidx hprog (fun i => i) (fun _ => rfl) 0 env _ ep er r
    s.a.toNat s.b.toNat s.c.toNat s.d.toNat _ _ _ _ _ _ bs ⟨raiseTo X.size X, baseS⟩ hr km hep her
    (raised_word hw 0 s.a rfl) (raised_word hw 1 s.b rfl) (raised_word hw 2 s.c rfl) (raised_word hw 3 s.d rfl)
  have hN := permN192_eq [k0, k1, k2, k3, k4, k5] r s
  simp only [toN, kw, List.getD, List.getElem?_cons_zero, List.getElem?_cons_succ, Option.getD] at hN
  simp only [hN] at hcall
  exact ⟨_, leak', hcall⟩

end TJ.MiniC.Hoare
