/-
  TJ.Proofs.SivCore — memcpy between blocks under the ghost-memory invariant, the length store through any temporary, function entry with two local objects.
-/
import TJ.Proofs.SivEncLoop
namespace TJ.MiniC.Hoare
open TJ TJ.MiniC TJ.MiniC.PermC TJ.Gen.MiniC

/-- `*clen = mlen + 8` through temporary `t` -/
theorem clen_storeV {prog : Program} {env : Env} {st : St} (t : Nat) (ht : t ≠ 3) (bl basel ol : Nat) (XL : Array LByte) (n : Nat)
    (h1 : env[1]? = some (mkPtr bl (basel + ol), .pub)) (h3 : env[3]? = some (n, .pub)) (hm : st.mem[bl]? = some ⟨XL, basel⟩)
    (hin : ol + 8 ≤ XL.size) (hal : (basel + ol) % 8 = 0) (hlt : basel + XL.size < ptrBase) (hn : n + 8 < 18446744073709551616) (hsz : t < env.size)
    {Q : Sig → Env → St → Prop}
    (hQ : Q .normal (setVar env t (mkPtr bl (basel + ol), .pub))
      { st with leak := .wr (mkPtr bl (basel + ol)) 8 :: st.leak, mem := setBlock st.mem bl (writeLE XL ol (n + 8) .pub 8) }) :
    RunsTo prog (clenStmtV t) env st Q := by
  unfold clenStmtV
  simp only [seqs]
  refine runs_seq (Q := fun e s' => e = setVar env t (mkPtr bl (basel + ol), .pub) ∧ s' = st)
    (runs_assign _ (by simp only [evalE, h1, reduceCtorEq, if_false]) ⟨rfl, rfl, rfl⟩) ?_
  intro e1 s1 ⟨he1, hs1⟩; rw [he1, hs1]
  refine runs_store (mkPtr bl (basel + ol)) (n + 8) bl ol 8 .pub rfl (by simp only [evalE, get_set_eq _ _ _ hsz, reduceCtorEq, if_false])
    (by simp only [evalE, get_set_ne _ _ _ _ ht, h3, reduceCtorEq, if_false, castVal_u64_i32_lit 8 (by decide), BinOp.needsPub2,
      BinOp.needsPub1, Bool.false_and, Bool.or_self, Bool.false_eq_true, binVal, Ty.modulus, Lab.join_pub_pub, Nat.mod_eq_of_lt hn])
    (resolve_mkPtr st.mem bl ol 8 ⟨XL, basel⟩ hm hin (show basel + ol < ptrBase from by omega) (fun _ => hal)) ?_
  rw [blockBytes_of hm]
  exact hQ

theorem sliceBytes_getV (X : Array LByte) : ∀ (dat : Bytes) (off : Nat), (∀ (k : Nat) (b : UInt8), dat[k]? = some b → BV X (off + k) b) →
    (sliceBytes X off dat.length).length = dat.length ∧ ∀ (k : Nat) (b : UInt8), dat[k]? = some b → ∃ l, (sliceBytes X off dat.length)[k]? = some (b, l) ∧ l ≠ Lab.undef
  | [], _, _ => ⟨rfl, fun k b hk => by simp at hk⟩
  | b0 :: rs, off, h => by
    obtain ⟨l0, hx0, hl0⟩ := h 0 b0 rfl
    rw [Nat.add_zero] at hx0
    obtain ⟨ihl, ihe⟩ := sliceBytes_getV X rs (off + 1) (fun k b hk => by
      have := h (k + 1) b (by simpa using hk)
      rw [show off + (k + 1) = off + 1 + k from by omega] at this; exact this)
    simp only [List.length_cons, sliceBytes, hx0]
    refine ⟨by simp [ihl], fun k b hk => ?_⟩
    cases k with
    | zero => simp at hk; subst hk; exact ⟨l0, by simp, hl0⟩
    | succ k => simpa using ihe k b (by simpa using hk)

theorem bytesV_writeBytes (XD : Array LByte) (offd : Nat) (S : List LByte) (dat : Bytes) (hl : S.length = dat.length) (hroom : offd + dat.length ≤ XD.size)
    (hS : ∀ (k : Nat) (b : UInt8), dat[k]? = some b → ∃ l, S[k]? = some (b, l) ∧ l ≠ Lab.undef) : BytesV (writeBytes XD offd S) offd dat := by
  refine ⟨by rw [size_writeBytes]; exact hroom, fun k b hk => ?_⟩
  have hkl : k < dat.length := by
    by_cases hh : k < dat.length
    · exact hh
    · rw [List.getElem?_eq_none (by omega)] at hk; cases hk
  obtain ⟨l, hs, hl'⟩ := hS k b hk
  exact ⟨l, by rw [getElem?_writeBytes, if_pos ⟨by omega, by omega, by omega⟩, show offd + k - offd = k from by omega]; exact hs, hl'⟩

/-- `memcpy(dst, src, n)` between two blocks other than the state object: the ghost memory gets the same bytes -/
theorem mi_memcpy {g : AGeo} {M : Array Block} {st : St} {s : W4} {kws : List UInt32} (mi : MI g M st s kws) {env : Env} (ed es en : Expr)
    (bd based offd : Nat) (XD : Array LByte) (bsr basesr offs : Nat) (XS : Array LByte) (dat : Bytes)
    (hbd : bd ≠ g.bs) (hbs : bsr ≠ g.bs) (hMd : M[bd]? = some ⟨XD, based⟩) (hMs : M[bsr]? = some ⟨XS, basesr⟩) (hd : BytesV XS offs dat) (hdl : dat.length ≠ 0)
    (hroom : offd + dat.length ≤ XD.size) (hltd : based + XD.size < ptrBase) (hlts : basesr + XS.size < ptrBase)
    (hed : evalE env ed = .ok (mkPtr bd (based + offd), .pub)) (hes : evalE env es = .ok (mkPtr bsr (basesr + offs), .pub)) (hen : evalE env en = .ok (dat.length, .pub))
    {Q : Sig → Env → St → Prop}
    (hQ : ∀ s' XD', MI g (setBlock M bd XD') s' s kws → XD'.size = XD.size → BytesV XD' offd dat → (∀ p, (p < offd ∨ offd + dat.length ≤ p) → XD'[p]? = XD[p]?) → Q .normal env s') :
    RunsTo g.prog (.memcpy ed es en) env st Q := by
  obtain ⟨XDa, hDa, hDas, _⟩ := oth_data mi.oth bd hbd XD based 0 [] hMd ⟨by simp, fun k b hk => by simp at hk⟩
  obtain ⟨XSa, hSa, hSas, hSad⟩ := oth_data mi.oth bsr hbs XS basesr offs dat hMs hd
  have hDale : BytesLe XDa XD := by have := mi.oth bd hbd; rw [hDa, hMd] at this; exact this.2
  have hSale : BytesLe XSa XS := by have := mi.oth bsr hbs; rw [hSa, hMs] at this; exact this.2
  refine runs_memcpy (mkPtr bd (based + offd)) (mkPtr bsr (basesr + offs)) dat.length bsr offs bd offd hed hes hen hdl
    (resolve_byte hSa offs (by rw [hSas]; have := hd.1; omega) (by have := hd.1; omega)) (by rw [blockBytes_of hSa, hSas]; exact hd.1)
    (resolve_byte hDa offd (by rw [hDas]; omega) (by omega)) (by rw [blockBytes_of hDa, hDas]; exact hroom) ?_
  rw [blockBytes_of hDa, blockBytes_of hSa]
  obtain ⟨gl, ge⟩ := sliceBytes_getV XS dat offs hd.2
  refine hQ _ (writeBytes XD offd (sliceBytes XS offs dat.length)) ⟨mi.klen, ?_, ?_, ?_, mi.ent⟩ (size_writeBytes _ _ _) (bytesV_writeBytes XD offd _ dat gl hroom ge) (fun p hp => ?_)
  · obtain ⟨X, h1, h2, h3⟩ := mi.obj
    exact ⟨X, by show (setBlock st.mem bd _)[g.bs]? = _; rw [getElem?_setBlock', if_neg (fun e => hbd e.symm)]; exact h1, h2, h3⟩
  · intro j hj
    show ORel BlockLe (setBlock st.mem bd _)[j]? (setBlock M bd _)[j]?
    rw [getElem?_setBlock', getElem?_setBlock']
    by_cases hjd : j = bd
    · simp only [hjd, if_true, hDa, hMd, Option.map]
      exact ⟨rfl, writeBytes_le hDale offd (sliceBytes_le hSale offs dat.length)⟩
    · simp only [hjd, if_false]; exact mi.oth j hj
  · show (setBlock st.mem bd _).size = (setBlock M bd _).size
    rw [size_setBlock', size_setBlock']; exact mi.msz
  · rw [getElem?_writeBytes, if_neg (by rw [gl]; omega)]


theorem enter_env_ab (vs : List LVal) (m a b : Nat) (xa xb : LVal) (hvs : vs.length = 8) (ha : 8 ≤ a) (hab : a < b) (hb : b < 8 + m) :
    (setVar (setVar (vs ++ List.replicate m (0, Lab.undef)).toArray a xa) b xb).size = 8 + m ∧
    (∀ (i : Nat) (v : LVal), vs[i]? = some v → (setVar (setVar (vs ++ List.replicate m (0, Lab.undef)).toArray a xa) b xb)[i]? = some v) ∧
    (setVar (setVar (vs ++ List.replicate m (0, Lab.undef)).toArray a xa) b xb)[a]? = some xa ∧
    (setVar (setVar (vs ++ List.replicate m (0, Lab.undef)).toArray a xa) b xb)[b]? = some xb := by
  refine ⟨by simp [size_setVar, hvs], fun i v hv => ?_, ?_, ?_⟩
  · have hi : i < 8 := by
      by_cases h : i < 8
      · exact h
      · rw [List.getElem?_eq_none (by omega)] at hv; cases hv
    rw [get_set_ne _ _ _ _ (by omega), get_set_ne _ _ _ _ (by omega), List.getElem?_toArray, List.getElem?_append_left (by omega)]; exact hv
  · rw [get_set_ne _ _ _ _ (by omega)]; exact get_set_eq _ _ _ (by simp [hvs]; omega)
  · exact get_set_eq _ _ _ (by simp [size_setVar, hvs]; omega)

end TJ.MiniC.Hoare
