/-
  TJ.Proofs.SivEncStmt — the bodies of tinyjambu_{128,192,256}_siv_encrypt as regenerated, as one statement function; `rfl` checks.
-/
import TJ.Proofs.AeadDecCall
namespace TJ.MiniC.Hoare
open TJ TJ.MiniC TJ.MiniC.PermC TJ.Gen.MiniC

def clenStmtV (t : Nat) : Stmt := seqs [.assign t (.var 1), .store .u64 (.var t) (.bin .add .u64 (.var 3) (.cast .u64 .i32 (.lit 8)))]

/-- the keystream word loop of the second SIV pass (state in `sv`, data word in `dw`, input pointer `iv`, output pointer 0, length 3) -/
def sivLoopBody (pidx pk sv dw iv v : Nat) : Stmt :=
  .ite (.bin .ge .u64 (.var 3) (.cast .u64 .i32 (.lit 4)))
    (seqs [xorPub 1 v (v + 1) (rc 208) sv, .call none pidx [.var sv, rc pk],
           seqs (loadsOf [(v + 2, 3), (v + 3, 2), (v + 4, 1), (v + 5, 0)] iv ++ [.assign dw (e32 (v + 2) (v + 3) (v + 4) (v + 5))]),
           seqs [.load (v + 6) .u32 (addrS 2 sv), .assign dw (.bin .bxor .u32 (.var dw) (.var (v + 6)))],
           seqs [.assign (v + 7) (.var dw), byteStmtV 0 (v + 8) 0 (v + 7) 0, byteStmtV 0 (v + 9) 1 (v + 7) 1, byteStmtV 0 (v + 10) 2 (v + 7) 2,
                 byteStmtV 0 (v + 11) 3 (v + 7) 3],
           .assign 0 (.bin .add .u64 (.var 0) (.lit 4)), .assign iv (.bin .add .u64 (.var iv) (.lit 4)),
           .assign 3 (.bin .sub .u64 (.var 3) (.cast .u64 .i32 (.lit 4)))])
    .brk

def sivEncTail (pidx pk v : Nat) : Stmt :=
  .ite (.bin .eq .u64 (.var 3) (.cast .u64 .i32 (.lit 1)))
    (seqs [xorPub 1 (v + 12) (v + 13) (rc 208) 8, .call none pidx [.var 8, rc pk],
           seqs (loadsOf [(v + 14, 0)] 2 ++ [.assign 10 (e8 (v + 14))]),
           seqs [.assign (v + 15) (.var 0), .load (v + 16) .u32 (addrS 2 8),
                 .store .u8 (.var (v + 15)) (.cast .u8 .u32 (.bin .bxor .u32 (.var (v + 16)) (.var 10)))]])
    (.ite (.bin .eq .u64 (.var 3) (.cast .u64 .i32 (.lit 2)))
      (seqs [xorPub 1 (v + 17) (v + 18) (rc 208) 8, .call none pidx [.var 8, rc pk],
             seqs (loadsOf [(v + 19, 1), (v + 20, 0)] 2 ++ [.assign 10 (e16 (v + 19) (v + 20))]),
             seqs [.load (v + 21) .u32 (addrS 2 8), .assign 10 (.bin .bxor .u32 (.var 10) (.var (v + 21)))],
             byteStmtV 0 (v + 22) 0 10 0, byteStmtV 0 (v + 23) 1 10 1])
      (.ite (.bin .eq .u64 (.var 3) (.cast .u64 .i32 (.lit 3)))
        (seqs [xorPub 1 (v + 24) (v + 25) (rc 208) 8, .call none pidx [.var 8, rc pk],
               seqs (loadsOf [(v + 26, 1), (v + 27, 0), (v + 28, 2)] 2 ++ [.assign 10 (e24 (v + 26) (v + 27) (v + 28))]),
               seqs [.load (v + 29) .u32 (addrS 2 8), .assign 10 (.bin .bxor .u32 (.var 10) (.var (v + 29)))],
               byteStmtV 0 (v + 30) 0 10 0, byteStmtV 0 (v + 31) 1 10 1, byteStmtV 0 (v + 32) 2 10 2])
        .skip))

def sivEncStmt (nk pidx pk sidx aidx gidx : Nat) : Stmt :=
  seqs (clenStmtV 11 :: ((List.range' 0 nk).map (keyWordStmt 8 12) ++
    [.call none sidx [.var 8, .var 6, .cast .u8 .i32 (.lit 144)],
     .call none aidx [.var 8, .var 4, .var 5, .cast .u8 .i32 (.lit 48), .cast .u32 .i32 (.lit 5)],
     .call none aidx [.var 8, .var 2, .var 3, .cast .u8 .i32 (.lit 80), rc pk],
     .call none gidx [.var 8, .bin .add .u64 (.var 0) (.var 3)],
     seqs [.memcpy (.var 9) (.var 6) (.cast .u64 .i32 (.lit 4)), .assign (12 + 5 * nk) (.var 9)],
     seqs [.memcpy (.bin .add .u64 (.var 9) (.lit 4)) (.bin .add .u64 (.var 0) (.var 3)) (.cast .u64 .i32 (.lit 8)),
           .assign (13 + 5 * nk) (.bin .add .u64 (.var 9) (.lit 4))],
     .call none sidx [.var 8, .var 9, .cast .u8 .i32 (.lit 176)],
     .loop (sivLoopBody pidx pk 8 10 2 (14 + 5 * nk)), sivEncTail pidx pk (14 + 5 * nk)]))

theorem sivenc128_eq : f_tinyjambu_128_siv_encrypt.body = sivEncStmt 4 42 8 53 12 17 := rfl
theorem sivenc192_eq : f_tinyjambu_192_siv_encrypt.body = sivEncStmt 6 43 9 54 13 18 := rfl
theorem sivenc256_eq : f_tinyjambu_256_siv_encrypt.body = sivEncStmt 8 44 10 55 14 19 := rfl

end TJ.MiniC.Hoare
