import TJ.Proofs.PbkdfF
namespace TJ.MiniC.Hoare
open TJ TJ.MiniC TJ.MiniC.PermC TJ.Gen.MiniC

theorem pbkdf2Iter_length (pw : Bytes) : ∀ (k : Nat) (t u : Bytes), t.length = 32 → u.length = 32 → (pbkdf2Iter pw k t u).length = 32
  | 0, t, u, ht, _ => by simpa [pbkdf2Iter] using ht
  | k + 1, t, u, ht, _ => by
    simp only [pbkdf2Iter]
    exact pbkdf2Iter_length pw k _ _ (xorBytes_length _ _ ht (hmac_length _ _)) (hmac_length _ _)

theorem pbkdf2F_length (pw salt : Bytes) (count : Nat) (w : UInt32) : (pbkdf2F pw salt count w).length = 32 := by
  unfold pbkdf2F
  by_cases hc : count > 1
  · simp only [hc, if_true]
    exact pbkdf2Iter_length pw _ _ _ (xorBytes_length _ _ (hmac_length _ _) (hmac_length _ _)) (hmac_length _ _)
  · simp only [hc, if_false]; exact hmac_length _ _

/-- wiping a whole block with `tinyjambu_clean` -/
theorem clean_full_call (env : Env) (st : St) (ep en : Expr) (n b : Nat) (blk : Block)
    (hb : st.mem[b]? = some blk) (hbase : blk.base = 0) (hsz : blk.bytes.size = n)
    (hp : evalE env ep = .ok (mkPtr b 0, .pub)) (hn : evalE env en = .ok (n, .pub)) (hn32 : n < 4294967296) (hn0 : n ≠ 0) :
    RunsTo prog (.call none idx_tinyjambu_clean [ep, en]) env st (fun sig e s => sig = .normal ∧ e = env ∧ s.ent = st.ent ∧
      s.mem = setBlock st.mem b (Array.replicate n (0, .pub))) :=
  ⟨0 + 2, _, _, _, exec_call_clean_full 0 env st ep en n b blk hb hbase hsz hp hn hn32 hn0, rfl, rfl, rfl, rfl⟩

/-- `a` already lies at `off` in `X`; `X'` agrees with `X` in value below `off + |a|` and holds `b` from there -/
theorem bytesV_append_veq {X X' : Array LByte} {off : Nat} {a b : Bytes} (ha : BytesV X off a) (hb : BytesV X' (off + a.length) b)
    (ho : ∀ q, q < off + a.length → ORel VEq X'[q]? X[q]?) : BytesV X' off (a ++ b) := by
  refine ⟨by have := hb.1; rw [List.length_append]; omega, fun k c hk => ?_⟩
  by_cases hka : k < a.length
  · rw [List.getElem?_append_left hka] at hk
    obtain ⟨l, hx, hl⟩ := ha.2 k c hk
    have hv := ho (off + k) (by omega)
    rw [hx] at hv
    cases hz : X'[off + k]? with
    | none => rw [hz] at hv; exact hv.elim
    | some z =>
      rw [hz] at hv
      obtain ⟨z1, z2⟩ := z
      have e1 : z1 = c := hv.1
      have e2 : (z2 = Lab.undef) = (l = Lab.undef) := hv.2
      exact ⟨z2, by rw [hz, e1], fun hu => hl (e2 ▸ hu)⟩
  · rw [List.getElem?_append_right (by omega)] at hk
    have := hb.2 (k - a.length) c hk
    rwa [show off + a.length + (k - a.length) = off + k from by omega] at this

theorem bytesV_take {X : Array LByte} {off : Nat} {a : Bytes} (h : BytesV X off a) (r : Nat) : BytesV X off (a.take r) := by
  refine ⟨by have := h.1; rw [List.length_take]; omega, fun k c hk => ?_⟩
  rw [List.getElem?_take] at hk
  by_cases hkr : k < r
  · rw [if_pos hkr] at hk; exact h.2 k c hk
  · rw [if_neg hkr] at hk; cases hk

def pbFull : Stmt := seqs [.call none idx_tinyjambu_pbkdf2_f [.var 7, .var 0, .var 8, .var 2, .var 3, .var 4, .var 5, .var 6, .var 9],
  .assign 0 (.bin .add .u64 (.var 0) (.lit 32)), .assign 1 (.bin .sub .u64 (.var 1) (.cast .u64 .i32 (.lit 32)))]

def pbLast : Stmt := seqs [.call none idx_tinyjambu_pbkdf2_f [.var 7, .var 10, .var 8, .var 2, .var 3, .var 4, .var 5, .var 6, .var 9],
  seqs [.memcpy (.var 0) (.var 10) (.var 1), .assign 11 (.var 0)], .call none idx_tinyjambu_clean [.var 10, .lit 32], .brk]

def pbLoopBody : Stmt :=
  .ite (.bin .gt .u64 (.var 1) (.cast .u64 .i32 (.lit 0)))
    (seqs [.ite (.bin .ge .u64 (.var 1) (.cast .u64 .i32 (.lit 32))) pbFull pbLast, .assign 9 (.bin .add .u64 (.var 9) (.lit 1))])
    .brk

def pbBody : Stmt := seqs [.assign 9 (.cast .u64 .i32 (.lit 1)), .loop pbLoopBody, .call none idx_tinyjambu_clean [.var 8, .lit 32]]

theorem pb_body_eq : f_tinyjambu_pbkdf2.body = pbBody := rfl

/-- geometry of a `tinyjambu_pbkdf2` activation: `n0` is the caller's memory size (locals are blocks `n0`, `n0+1`, `n0+2`) -/
structure POG where
  n0 : Nat
  bo : Nat
  baseo : Nat
  oo : Nat
  n : Nat
  bp : Nat
  basep : Nat
  poff : Nat
  psz : Nat
  bsl : Nat
  basesl : Nat
  sloff : Nat
  slsz : Nat
  pw : Bytes
  salt : Bytes
  count : Nat
  ent : List Delivery
  XO0 : Array LByte
  hbo : bo < n0
  hbp : bp < n0
  hbsl : bsl < n0
  hop : bo ≠ bp
  hosl : bo ≠ bsl
  hltO : baseo + XO0.size < ptrBase
  hltP : basep + psz < ptrBase
  hltSl : basesl + slsz < ptrBase
  hin : oo + n ≤ XO0.size
  hc64 : count < 18446744073709551616
  hsz : n0 + 9 < 2 ^ 30

/-- the state of `tinyjambu_pbkdf2` at the head of the loop: `acc` already written, `r` bytes to go, next block number `bk` -/
structure PO (G : POG) (mem0 : Array Block) (acc : Bytes) (r bk b9 : Nat) (env : Env) (s : St) : Prop where
  esz : env.size = 12
  e0 : env[0]? = some (mkPtr G.bo (G.baseo + (G.oo + acc.length)), .pub)
  e1 : env[1]? = some (r, .pub)
  e2 : env[2]? = some (mkPtr G.bp (G.basep + G.poff), .pub)
  e3 : env[3]? = some (G.pw.length, .pub)
  e4 : env[4]? = some (mkPtr G.bsl (G.basesl + G.sloff), .pub)
  e5 : env[5]? = some (G.salt.length, .pub)
  e6 : env[6]? = some (G.count, .pub)
  e7 : env[7]? = some (mkPtr G.n0 0, .pub)
  e8 : env[8]? = some (mkPtr (G.n0 + 1) 0, .pub)
  e9 : env[9]? = some (b9, .pub)
  e10 : env[10]? = some (mkPtr (G.n0 + 2) 0, .pub)
  hn : acc.length + r = G.n
  hbk : 32 * bk = acc.length + 32
  ent : s.ent = G.ent
  msz : s.mem.size = G.n0 + 3
  hS : ∃ X, s.mem[G.n0]? = some ⟨X, 0⟩ ∧ X.size = 56
  hU : ∃ X, s.mem[G.n0 + 1]? = some ⟨X, 0⟩ ∧ X.size = 32
  hT : ∃ X, s.mem[G.n0 + 2]? = some ⟨X, 0⟩ ∧ X.size = 32
  hO : ∃ XO, s.mem[G.bo]? = some ⟨XO, G.baseo⟩ ∧ XO.size = G.XO0.size ∧ BytesV XO G.oo acc ∧ ∀ q, (q < G.oo ∨ G.oo + acc.length ≤ q) → ORel VEq XO[q]? G.XO0[q]?
  hP : HasBuf s.mem G.bp G.basep G.poff G.psz G.pw
  hSl : HasBuf s.mem G.bsl G.basesl G.sloff G.slsz G.salt
  oth : ∀ j, j < G.n0 → j ≠ G.bo → ORel BlockEqV s.mem[j]? mem0[j]?

theorem ptrBase_val : ptrBase = 4294967296 := rfl

/-- a full 32-byte block written straight into `out` -/
theorem pb_full (G : POG) (mem0 : Array Block) (acc : Bytes) (r bk : Nat) (hr : 32 ≤ r) {env : Env} {s : St} (x : PO G mem0 acc r bk bk env s) :
    RunsTo prog pbFull env s (fun sig e' s' => sig = .normal ∧ PO G mem0 (acc ++ pbkdf2F G.pw G.salt G.count bk.toUInt32) (r - 32) (bk + 1) bk e' s') := by
  obtain ⟨XS, hSm, hSs⟩ := x.hS
  obtain ⟨XU, hUm, hUs⟩ := x.hU
  obtain ⟨XO, hOm, hOs, hOd, hOo⟩ := x.hO
  have hG := G.hsz; have hbo := G.hbo; have hbp := G.hbp; have hbsl := G.hbsl; have hin := G.hin; have hlt := G.hltO; have hn := x.hn
  unfold pbFull
  simp only [seqs]
  refine runs_seq (pbkdf2_f_call env s (.var 7) (.var 0) (.var 8) (.var 2) (.var 3) (.var 4) (.var 5) (.var 6) (.var 9)
    G.n0 G.bo (G.n0 + 1) G.bp G.bsl XS XO XU G.baseo (G.oo + acc.length) 0 0 G.basep G.poff G.psz G.basesl G.sloff G.slsz G.pw G.salt G.count bk
    (by simp only [evalE, x.e7, reduceCtorEq, if_false]) (by simp only [evalE, x.e0, reduceCtorEq, if_false]) (by simp only [evalE, x.e8, reduceCtorEq, if_false])
    (by simp only [evalE, x.e2, reduceCtorEq, if_false]) (by simp only [evalE, x.e3, reduceCtorEq, if_false]) (by simp only [evalE, x.e4, reduceCtorEq, if_false])
    (by simp only [evalE, x.e5, reduceCtorEq, if_false]) (by simp only [evalE, x.e6, reduceCtorEq, if_false]) (by simp only [evalE, x.e9, reduceCtorEq, if_false])
    hSm hSs hOm hUm x.hP x.hSl (by omega) (by omega) (by omega) (by omega) G.hop (by omega) (by omega)
    (by rw [hOs]; exact G.hltO) (by rw [hUs]; simp [ptrBase]) G.hltP G.hltSl (by rw [hOs]; omega) (by rw [hUs]; omega) G.hc64 (by rw [x.msz]; omega)) ?_
  intro e1 s1 ⟨he1, hent1, hsz1, hS1, ⟨XO1, hO1m, hO1s, hO1d, hO1o⟩, ⟨XU1, hU1m, hU1s⟩, hoth1⟩
  rw [he1]
  have hFl := pbkdf2F_length G.pw G.salt G.count bk.toUInt32
  have hp32 : (mkPtr G.bo (G.baseo + (G.oo + acc.length)) + 32) % 18446744073709551616 = mkPtr G.bo (G.baseo + (G.oo + (acc ++ pbkdf2F G.pw G.salt G.count bk.toUInt32).length)) := by
    rw [ptr_off G.bo _ 32 (by omega) (by rw [ptrBase_val] at *; omega), List.length_append, hFl, Nat.add_assoc, Nat.add_assoc]
  refine runs_seq (Q := fun e s' => e = setVar env 0 (mkPtr G.bo (G.baseo + (G.oo + (acc ++ pbkdf2F G.pw G.salt G.count bk.toUInt32).length)), .pub) ∧ s' = s1) (runs_assign _ (by
    simp only [evalE, x.e0, reduceCtorEq, if_false, BinOp.needsPub2, BinOp.needsPub1, Bool.false_and, Bool.or_self, Bool.false_eq_true, binVal, Ty.modulus, Lab.join_pub_pub, hp32]) ⟨rfl, rfl, rfl⟩) ?_
  intro e2 s2 ⟨he2, hs2⟩; rw [he2, hs2]
  refine runs_assign (r - 32, .pub) (by
    simp only [evalE, get_set_ne _ _ _ _ (show ¬ 0 = 1 from by decide), x.e1, reduceCtorEq, if_false, castVal_u64_i32_lit 32 (by decide), BinOp.needsPub2, BinOp.needsPub1, Bool.false_and,
      Bool.or_self, Bool.false_eq_true, binVal, Ty.modulus, Lab.join_pub_pub, sub64 r 32 hr (by rw [ptrBase_val] at *; omega) (by decide)]) ?_
  refine ⟨rfl, ?_⟩
  · refine ⟨by simp only [size_setVar]; exact x.esz, ?_, ?_, ?_, ?_, ?_, ?_, ?_, ?_, ?_, ?_, ?_, ?_, ?_, ?_, ?_, ?_, ?_, ?_, ?_, ?_, ?_, ?_⟩
    · rw [get_set_ne _ _ _ _ (by decide)]; exact get_set_eq _ _ _ (by rw [x.esz]; decide)
    · exact get_set_eq _ _ _ (by rw [size_setVar, x.esz]; decide)
    · rw [get_set_ne _ _ _ _ (by decide), get_set_ne _ _ _ _ (by decide)]; exact x.e2
    · rw [get_set_ne _ _ _ _ (by decide), get_set_ne _ _ _ _ (by decide)]; exact x.e3
    · rw [get_set_ne _ _ _ _ (by decide), get_set_ne _ _ _ _ (by decide)]; exact x.e4
    · rw [get_set_ne _ _ _ _ (by decide), get_set_ne _ _ _ _ (by decide)]; exact x.e5
    · rw [get_set_ne _ _ _ _ (by decide), get_set_ne _ _ _ _ (by decide)]; exact x.e6
    · rw [get_set_ne _ _ _ _ (by decide), get_set_ne _ _ _ _ (by decide)]; exact x.e7
    · rw [get_set_ne _ _ _ _ (by decide), get_set_ne _ _ _ _ (by decide)]; exact x.e8
    · rw [get_set_ne _ _ _ _ (by decide), get_set_ne _ _ _ _ (by decide)]; exact x.e9
    · rw [get_set_ne _ _ _ _ (by decide), get_set_ne _ _ _ _ (by decide)]; exact x.e10
    · rw [List.length_append, hFl]; omega
    · rw [List.length_append, hFl]; have := x.hbk; omega
    · rw [hent1]; exact x.ent
    · rw [hsz1]; exact x.msz
    · exact ⟨_, hS1, by simp⟩
    · exact ⟨XU1, hU1m, by rw [hU1s]; exact hUs⟩
    · obtain ⟨XT, hTm, hTs⟩ := x.hT
      have := hoth1 (G.n0 + 2) (by omega) (by omega) (by omega)
      rw [hTm] at this
      obtain ⟨Z, hz, hzs, _⟩ := eqv_block this
      exact ⟨Z, hz, by rw [hzs]; exact hTs⟩
    · refine ⟨XO1, hO1m, by rw [hO1s]; exact hOs, bytesV_append_veq hOd hO1d (fun q hq => hO1o q (Or.inl hq)), fun q hq => ?_⟩
      rw [List.length_append, hFl] at hq
      exact orel_trans (R := VEq) (fun _ _ _ p q => VEq.trans p q) (hO1o q (by omega)) (hOo q (by omega))
    · exact x.hP.eqv (hoth1 G.bp (by omega) (fun e => G.hop e.symm) (by omega))
    · exact x.hSl.eqv (hoth1 G.bsl (by omega) (fun e => G.hosl e.symm) (by omega))
    · intro j hj hjo
      exact orel_trans (R := BlockEqV) (fun _ _ _ p q => BlockEqV.trans p q) (hoth1 j (by omega) hjo (by omega)) (x.oth j hj hjo)

end TJ.MiniC.Hoare
