/-
  TJ.Proofs.HkdfCore — rules used by the HKDF/PBKDF2 layer: return inside a loop, load of a public byte, memcpy between explicit blocks.
-/
import TJ.Proofs.HkdfExtract
namespace TJ.MiniC.Hoare
open TJ TJ.MiniC TJ.MiniC.PermC TJ.Gen.MiniC

/-- a `return` inside a loop body leaves the loop -/
theorem runs_loop_ret {prog : Program} {body : Stmt} {env : Env} {st : St} {P : Sig → Env → St → Prop}
    (hb : RunsTo prog body env st (fun sig e s => (∃ v, sig = .ret v) ∧ P sig e s)) : RunsTo prog (.loop body) env st P := by
  obtain ⟨n, sig, e, s, h, ⟨v, hs⟩, hp⟩ := hb
  subst hs
  exact ⟨n + 1, .ret v, e, s, by rw [exec, h], hp⟩

/-- `x = *p` for a public byte -/
theorem load_pub_byte {env : Env} {st : St} (x : Nat) (ea : Expr) (b base q : Nat) (X : Array LByte) (v : UInt8)
    (hea : evalE env ea = .ok (mkPtr b (base + q), .pub)) (hm : st.mem[b]? = some ⟨X, base⟩) (hb : X[q]? = some (v, .pub)) (hlt : base + X.size < ptrBase)
    {Q : Sig → Env → St → Prop}
    (hQ : Q .normal (setVar env x (v.toNat, .pub)) { st with leak := Ev.rd (mkPtr b (base + q)) 1 :: st.leak }) :
    RunsTo prog (.load x .u8 ea) env st Q := by
  have hq : q < X.size := by
    by_cases h : q < X.size
    · exact h
    · rw [Array.getElem?_eq_none (by omega)] at hb; cases hb
  have hrd : readLE X q 1 = some (v.toNat, .pub) := by
    simp only [readLE, hb, reduceCtorEq, if_false, Nat.mul_zero, Nat.add_zero, Lab.join_pub_pub]
  exact runs_load (mkPtr b (base + q)) b q 1 (v.toNat, .pub) rfl hea (resolve_byte hm q (by omega) (by omega)) (by rw [blockBytes_of hm]; exact hrd) hQ

/-- `memcpy(dst, src, n)` between two different blocks, with the effect described on the destination block -/
theorem memcpy_blocks {env : Env} {st : St} (ed es en : Expr) (bd based offd : Nat) (XD : Array LByte) (bsr basesr offs : Nat) (XS : Array LByte) (dat : Bytes)
    (hMd : st.mem[bd]? = some ⟨XD, based⟩) (hMs : st.mem[bsr]? = some ⟨XS, basesr⟩) (hd : BytesV XS offs dat)
    (hroom : offd + dat.length ≤ XD.size) (hltd : based + XD.size < ptrBase) (hlts : basesr + XS.size < ptrBase)
    (hed : evalE env ed = .ok (mkPtr bd (based + offd), .pub)) (hes : evalE env es = .ok (mkPtr bsr (basesr + offs), .pub)) (hen : evalE env en = .ok (dat.length, .pub))
    {Q : Sig → Env → St → Prop}
    (hQ : ∀ s', s'.ent = st.ent → s'.mem.size = st.mem.size → (∀ j, j ≠ bd → s'.mem[j]? = st.mem[j]?) →
      (∃ XD', s'.mem[bd]? = some ⟨XD', based⟩ ∧ XD'.size = XD.size ∧ BytesV XD' offd dat ∧ (∀ p, (p < offd ∨ offd + dat.length ≤ p) → XD'[p]? = XD[p]?)) → Q .normal env s') :
    RunsTo prog (.memcpy ed es en) env st Q := by
  by_cases h0 : dat.length = 0
  · refine runs_memcpy_zero _ _ hed hes (by rw [hen, h0]) ?_
    have hnil : dat = [] := List.length_eq_zero_iff.mp h0
    exact hQ _ rfl rfl (fun _ _ => rfl) ⟨XD, hMd, rfl, ⟨by rw [h0]; omega, fun k b hk => by rw [hnil] at hk; simp at hk⟩, fun _ _ => rfl⟩
  · refine runs_memcpy (mkPtr bd (based + offd)) (mkPtr bsr (basesr + offs)) dat.length bsr offs bd offd hed hes hen h0
      (resolve_byte hMs offs (by have := hd.1; omega) (by have := hd.1; omega)) (by rw [blockBytes_of hMs]; exact hd.1)
      (resolve_byte hMd offd (by omega) (by omega)) (by rw [blockBytes_of hMd]; exact hroom) ?_
    rw [blockBytes_of hMd, blockBytes_of hMs]
    obtain ⟨gl, ge⟩ := sliceBytes_getV XS dat offs hd.2
    refine hQ _ rfl (by show (setBlock st.mem _ _).size = _; rw [size_setBlock']) (fun j hj => by show (setBlock st.mem _ _)[j]? = _; rw [getElem?_setBlock', if_neg hj])
      ⟨_, by show (setBlock st.mem _ _)[bd]? = _; rw [getElem?_setBlock', if_pos rfl, hMd]; rfl, size_writeBytes _ _ _, bytesV_writeBytes XD offd _ dat gl hroom ge, fun p hp => ?_⟩
    rw [getElem?_writeBytes, if_neg (by rw [gl]; omega)]

end TJ.MiniC.Hoare
