import TJ.Proofs.HashFinal
namespace TJ.MiniC.Hoare
open TJ TJ.MiniC TJ.MiniC.PermC TJ.Gen.MiniC

/-- the first `n` words of `X` hold the listed values as public bytes -/
structure WdP (X : Array LByte) (n : Nat) (w : List (Option UInt32)) : Prop where
  big : 4 * n ≤ X.size
  rdb : ∀ i v, i < n → w[i]? = some (some v) → ∀ j, j < 4 → X[4 * i + j]? = some (byteOf v.toNat j, Lab.pub)

theorem WdP.set {X : Array LByte} {n : Nat} {w : List (Option UInt32)} (h : WdP X n w) (i : Nat) (hi : i < n) (v : UInt32) :
    WdP (writeLE X (4 * i) v.toNat .pub 4) n (w.set i (some v)) := by
  have hb := h.big
  refine ⟨by rw [size_writeLE]; exact h.big, fun j u hj hu k hk => ?_⟩
  by_cases hji : j = i
  · subst hji
    by_cases hlen : j < w.length
    · rw [List.getElem?_set_self hlen] at hu
      have huv : v = u := by injection hu with h1; injection h1
      rw [← huv]
      exact getElem?_writeLE_in .pub 4 X (4 * j) v.toNat k hk (by omega)
    · rw [List.getElem?_eq_none (by rw [List.length_set]; omega)] at hu; cases hu
  · rw [List.getElem?_set_ne (fun e => hji e.symm)] at hu
    rw [getElem?_writeLE_out _ _ _ _ _ _ (by omega)]
    exact h.rdb j u hj hu k hk

theorem readLE_of_bytesP (X : Array LByte) (off : Nat) (v : Nat) (hv : v < 4294967296)
    (h : ∀ j, j < 4 → X[off + j]? = some (byteOf v j, Lab.pub)) : readLE X off 4 = some (v, .pub) := by
  have h0 := h 0 (by decide); have h1 := h 1 (by decide); have h2 := h 2 (by decide); have h3 := h 3 (by decide)
  simp only [Nat.add_zero] at h0
  simp only [readLE, h0, h1, h2, h3, show off + 1 + 1 = off + 2 from rfl, show off + 2 + 1 = off + 3 from rfl, reduceCtorEq, if_false,
    byteOf_toNat, Lab.join]
  congr 2
  simp only [Nat.pow_zero, Nat.div_one, Nat.pow_one, show (256 : Nat) ^ 2 = 65536 from rfl, show (256 : Nat) ^ 3 = 16777216 from rfl]
  omega

/-- `p = state + 4i; *p = v` with a public constant `v` -/
theorem init_step {prog : Program} {env : Env} {st : St} (bs baseS : Nat) (X : Array LByte) (w : List (Option UInt32)) (i t : Nat) (ae ve : Expr) (v : UInt32)
    (hi : i < 13) (ht : 2 ≤ t ∧ t < 15) (hes : env.size = 15) (h1 : env[1]? = some (mkPtr bs baseS, .pub))
    (hae : ∀ e : Env, e[1]? = some (mkPtr bs baseS, .pub) → evalE e ae = .ok (mkPtr bs (baseS + 4 * i), .pub))
    (hve : ∀ e : Env, evalE e ve = .ok (v.toNat, .pub))
    (hb : st.mem[bs]? = some ⟨X, baseS⟩) (hw : WdP X 13 w) (hal : baseS % 4 = 0) (hlt : baseS + X.size < ptrBase)
    {P : Sig → Env → St → Prop}
    (hP : ∀ e l, e.size = 15 → e[1]? = some (mkPtr bs baseS, .pub) →
      P .normal e { st with leak := l, mem := (setBlock st.mem bs (writeLE X (4 * i) v.toNat .pub 4)) }) :
    RunsTo prog (seqs [.assign t ae, .store .u32 (.var t) ve]) env st P := by
  have hbig := hw.big
  simp only [seqs]
  refine runs_seq (Q := fun e s => e = setVar env t (mkPtr bs (baseS + 4 * i), .pub) ∧ s = st) (runs_assign _ (hae env h1) ⟨rfl, rfl, rfl⟩) ?_
  intro e s ⟨he, hs⟩; rw [he, hs]
  refine runs_store (mkPtr bs (baseS + 4 * i)) v.toNat bs (4 * i) 4 .pub rfl
    (by simp only [evalE, get_set_eq _ _ _ (show t < env.size from by omega), reduceCtorEq, if_false]) (hve _)
    (resolve_word hb (4 * i) (by omega) (by omega) (by omega)) ?_
  rw [blockBytes_of hb]
  exact hP _ _ (by rw [size_setVar]; exact hes) (by rw [get_set_ne _ _ _ _ (by omega)]; exact h1)

structure II (bs baseS : Nat) (st0 : St) (sz : Nat) (w : List (Option UInt32)) (e : Env) (s : St) : Prop where
  esz : e.size = 15
  e1 : e[1]? = some (mkPtr bs baseS, .pub)
  obj : ∃ X, s.mem[bs]? = some ⟨X, baseS⟩ ∧ X.size = sz ∧ WdP X 13 w
  oth : ∀ j, j ≠ bs → s.mem[j]? = st0.mem[j]?
  msz : s.mem.size = st0.mem.size
  ent : s.ent = st0.ent

theorem II.step {prog : Program} {bs baseS : Nat} {st0 : St} {sz : Nat} {w : List (Option UInt32)} {e : Env} {s : St} (ii : II bs baseS st0 sz w e s)
    (i t : Nat) (ae ve : Expr) (v : UInt32) (hi : i < 13) (ht : 2 ≤ t ∧ t < 15)
    (hae : ∀ e : Env, e[1]? = some (mkPtr bs baseS, .pub) → evalE e ae = .ok (mkPtr bs (baseS + 4 * i), .pub))
    (hve : ∀ e : Env, evalE e ve = .ok (v.toNat, .pub)) (hal : baseS % 4 = 0) (hlt : baseS + sz < ptrBase) :
    RunsTo prog (seqs [.assign t ae, .store .u32 (.var t) ve]) e s (fun sig e' s' => sig = .normal ∧ II bs baseS st0 sz (w.set i (some v)) e' s') := by
  obtain ⟨X, hb, hXs, hw⟩ := ii.obj
  refine init_step bs baseS X w i t ae ve v hi ht ii.esz ii.e1 hae hve hb hw hal (by rw [hXs]; exact hlt) ?_
  intro e' l h1 h2
  refine ⟨rfl, h1, h2, ⟨_, ?_, by rw [size_writeLE]; exact hXs, hw.set i hi v⟩, ?_, ?_, ii.ent⟩
  · show (setBlock s.mem bs _)[bs]? = _; rw [getElem?_setBlock', if_pos rfl, hb]; rfl
  · intro j hj; show (setBlock s.mem bs _)[j]? = _; rw [getElem?_setBlock', if_neg hj]; exact ii.oth j hj
  · show (setBlock s.mem bs _).size = _; rw [size_setBlock']; exact ii.msz

theorem addr_init (bs baseS : Nat) (hbs30 : bs < 2 ^ 30) (i : Nat) (hlt : baseS + 4 * i < ptrBase) (e : Env) (h1 : e[1]? = some (mkPtr bs baseS, .pub)) :
    evalE e (if i = 0 then .var 1 else .bin .add .u64 (.var 1) (.lit (4 * i))) = .ok (mkPtr bs (baseS + 4 * i), .pub) := by
  by_cases h0 : i = 0
  · subst h0; simp only [if_true, evalE, h1, reduceCtorEq, if_false, Nat.mul_zero, Nat.add_zero]
  · simp only [h0, if_false, evalE, h1, reduceCtorEq, BinOp.needsPub2, BinOp.needsPub1, Bool.false_and, Bool.or_self, Bool.false_eq_true, binVal,
      Ty.modulus, Lab.join_pub_pub]
    rw [ptr_off bs baseS (4 * i) hbs30 hlt]

theorem val_zero (e : Env) : evalE e (.cast .u32 .i32 (.lit 0)) = .ok ((0 : UInt32).toNat, .pub) := by simp only [evalE, castVal_u32_i32_0']; rfl
theorem val_ones (e : Env) : evalE e (.lit 4294967295) = .ok ((0xFFFFFFFF : UInt32).toNat, .pub) := by simp only [evalE]; rfl

/-- the body of the regenerated `tinyjambu_hash_init` -/
theorem init_body (prog : Program) (env : Env) (st : St) (bs baseS : Nat) (X : Array LByte) (esz : env.size = 15)
    (e0 : env[0]? = some (mkPtr bs baseS, .pub)) (hb : st.mem[bs]? = some ⟨X, baseS⟩) (hsz : 52 ≤ X.size) (hal : baseS % 4 = 0)
    (hlt : baseS + X.size < ptrBase) (hbs30 : bs < 2 ^ 30) :
    RunsTo prog f_tinyjambu_hash_init.body env st (fun sig e s => sig = .normal ∧ II bs baseS st X.size [some (0), some (0), some (0), some (0), some (0xFFFFFFFF), some (0xFFFFFFFF), some (0xFFFFFFFF), some (0xFFFFFFFF), some (0), some (0), some (0), some (0), some (0)] e s) := by
  simp only [f_tinyjambu_hash_init]
  have ii0 : II bs baseS st X.size [none, none, none, none, none, none, none, none, none, none, none, none, none] (setVar env 1 (mkPtr bs baseS, .pub)) st :=
    ⟨by rw [size_setVar]; exact esz, get_set_eq _ _ _ (by rw [esz]; decide),
     ⟨X, hb, rfl, ⟨by omega, fun i v hi hv => by
        match i, hi, hv with
        | 0, _, hv => cases hv | 1, _, hv => cases hv | 2, _, hv => cases hv | 3, _, hv => cases hv | 4, _, hv => cases hv
        | 5, _, hv => cases hv | 6, _, hv => cases hv | 7, _, hv => cases hv | 8, _, hv => cases hv | 9, _, hv => cases hv
        | 10, _, hv => cases hv | 11, _, hv => cases hv | 12, _, hv => cases hv⟩⟩, fun _ _ => rfl, rfl, rfl⟩
  rw [seqs_cons2]
  refine runs_seq (Q := fun e s => II bs baseS st X.size [none, none, none, none, none, none, none, none, none, none, none, none, none] e s)
    (runs_assign _ (by simp only [evalE, e0, reduceCtorEq, if_false]) ⟨rfl, ii0⟩) ?_
  intro e0' s0' c0
  rw [seqs_cons2]
  refine runs_seq (Q := fun e s => II bs baseS st X.size [some (0), none, none, none, none, none, none, none, none, none, none, none, none] e s) (c0.step (prog := prog) 0 2 _ _ (0) (by decide) (by decide) (fun e h1 => addr_init bs baseS hbs30 0 (by omega) e h1) val_zero hal hlt) ?_
  intro e1 s1 c1
  rw [seqs_cons2]
  refine runs_seq (Q := fun e s => II bs baseS st X.size [some (0), some (0), none, none, none, none, none, none, none, none, none, none, none] e s) (c1.step (prog := prog) 1 3 _ _ (0) (by decide) (by decide) (fun e h1 => addr_init bs baseS hbs30 1 (by omega) e h1) val_zero hal hlt) ?_
  intro e2 s2 c2
  rw [seqs_cons2]
  refine runs_seq (Q := fun e s => II bs baseS st X.size [some (0), some (0), some (0), none, none, none, none, none, none, none, none, none, none] e s) (c2.step (prog := prog) 2 4 _ _ (0) (by decide) (by decide) (fun e h1 => addr_init bs baseS hbs30 2 (by omega) e h1) val_zero hal hlt) ?_
  intro e3 s3 c3
  rw [seqs_cons2]
  refine runs_seq (Q := fun e s => II bs baseS st X.size [some (0), some (0), some (0), some (0), none, none, none, none, none, none, none, none, none] e s) (c3.step (prog := prog) 3 5 _ _ (0) (by decide) (by decide) (fun e h1 => addr_init bs baseS hbs30 3 (by omega) e h1) val_zero hal hlt) ?_
  intro e4 s4 c4
  rw [seqs_cons2]
  refine runs_seq (Q := fun e s => II bs baseS st X.size [some (0), some (0), some (0), some (0), some (0xFFFFFFFF), none, none, none, none, none, none, none, none] e s) (c4.step (prog := prog) 4 6 _ _ (0xFFFFFFFF) (by decide) (by decide) (fun e h1 => addr_init bs baseS hbs30 4 (by omega) e h1) val_ones hal hlt) ?_
  intro e5 s5 c5
  rw [seqs_cons2]
  refine runs_seq (Q := fun e s => II bs baseS st X.size [some (0), some (0), some (0), some (0), some (0xFFFFFFFF), some (0xFFFFFFFF), none, none, none, none, none, none, none] e s) (c5.step (prog := prog) 5 7 _ _ (0xFFFFFFFF) (by decide) (by decide) (fun e h1 => addr_init bs baseS hbs30 5 (by omega) e h1) val_ones hal hlt) ?_
  intro e6 s6 c6
  rw [seqs_cons2]
  refine runs_seq (Q := fun e s => II bs baseS st X.size [some (0), some (0), some (0), some (0), some (0xFFFFFFFF), some (0xFFFFFFFF), some (0xFFFFFFFF), none, none, none, none, none, none] e s) (c6.step (prog := prog) 6 8 _ _ (0xFFFFFFFF) (by decide) (by decide) (fun e h1 => addr_init bs baseS hbs30 6 (by omega) e h1) val_ones hal hlt) ?_
  intro e7 s7 c7
  rw [seqs_cons2]
  refine runs_seq (Q := fun e s => II bs baseS st X.size [some (0), some (0), some (0), some (0), some (0xFFFFFFFF), some (0xFFFFFFFF), some (0xFFFFFFFF), some (0xFFFFFFFF), none, none, none, none, none] e s) (c7.step (prog := prog) 7 9 _ _ (0xFFFFFFFF) (by decide) (by decide) (fun e h1 => addr_init bs baseS hbs30 7 (by omega) e h1) val_ones hal hlt) ?_
  intro e8 s8 c8
  rw [seqs_cons2]
  refine runs_seq (Q := fun e s => II bs baseS st X.size [some (0), some (0), some (0), some (0), some (0xFFFFFFFF), some (0xFFFFFFFF), some (0xFFFFFFFF), some (0xFFFFFFFF), some (0), none, none, none, none] e s) (c8.step (prog := prog) 8 10 _ _ (0) (by decide) (by decide) (fun e h1 => addr_init bs baseS hbs30 8 (by omega) e h1) val_zero hal hlt) ?_
  intro e9 s9 c9
  rw [seqs_cons2]
  refine runs_seq (Q := fun e s => II bs baseS st X.size [some (0), some (0), some (0), some (0), some (0xFFFFFFFF), some (0xFFFFFFFF), some (0xFFFFFFFF), some (0xFFFFFFFF), some (0), some (0), none, none, none] e s) (c9.step (prog := prog) 9 11 _ _ (0) (by decide) (by decide) (fun e h1 => addr_init bs baseS hbs30 9 (by omega) e h1) val_zero hal hlt) ?_
  intro e10 s10 c10
  rw [seqs_cons2]
  refine runs_seq (Q := fun e s => II bs baseS st X.size [some (0), some (0), some (0), some (0), some (0xFFFFFFFF), some (0xFFFFFFFF), some (0xFFFFFFFF), some (0xFFFFFFFF), some (0), some (0), some (0), none, none] e s) (c10.step (prog := prog) 10 12 _ _ (0) (by decide) (by decide) (fun e h1 => addr_init bs baseS hbs30 10 (by omega) e h1) val_zero hal hlt) ?_
  intro e11 s11 c11
  rw [seqs_cons2]
  refine runs_seq (Q := fun e s => II bs baseS st X.size [some (0), some (0), some (0), some (0), some (0xFFFFFFFF), some (0xFFFFFFFF), some (0xFFFFFFFF), some (0xFFFFFFFF), some (0), some (0), some (0), some (0), none] e s) (c11.step (prog := prog) 11 13 _ _ (0) (by decide) (by decide) (fun e h1 => addr_init bs baseS hbs30 11 (by omega) e h1) val_zero hal hlt) ?_
  intro e12 s12 c12
  exact (c12.step (prog := prog) 12 14 _ _ (0) (by decide) (by decide) (fun e h1 => addr_init bs baseS hbs30 12 (by omega) e h1) val_zero hal hlt)

theorem byteOf_zero (j : Nat) : byteOf 0 j = 0 := by simp [byteOf]

/-- what `tinyjambu_hash_init` leaves is an initialised hash state, whatever the object held before -/
theorem HObjV.ofInit {X : Array LByte} (old : HState) (hsz : 52 ≤ X.size)
    (w : WdP X 13 [some 0, some 0, some 0, some 0, some 0xFFFFFFFF, some 0xFFFFFFFF, some 0xFFFFFFFF, some 0xFFFFFFFF, some 0, some 0, some 0, some 0, some 0]) :
    HObjV X (HState.init old) := by
  refine ⟨hsz, fun i v hv j hj => ?_, by simp [HState.init, zeros], fun i b hb => ?_, ?_, by simp [HState.init]⟩
  · have hi : i < 8 := by
      by_cases hi : i < 8
      · exact hi
      · rw [List.getElem?_eq_none (by simp; omega)] at hv; cases hv
    refine ⟨.pub, w.rdb i v (by omega) ?_ j hj, by decide⟩
    match i, hi, hv with
    | 0, _, hv => simp only [HState.init, W4.zero, List.getElem?_cons_zero] at hv ⊢; rw [← Option.some.inj hv]
    | 1, _, hv => simp only [HState.init, W4.zero, List.getElem?_cons_succ, List.getElem?_cons_zero] at hv ⊢; rw [← Option.some.inj hv]
    | 2, _, hv => simp only [HState.init, W4.zero, List.getElem?_cons_succ, List.getElem?_cons_zero] at hv ⊢; rw [← Option.some.inj hv]
    | 3, _, hv => simp only [HState.init, W4.zero, List.getElem?_cons_succ, List.getElem?_cons_zero] at hv ⊢; rw [← Option.some.inj hv]
    | 4, _, hv => simp only [HState.init, List.getElem?_cons_succ, List.getElem?_cons_zero] at hv ⊢; rw [← Option.some.inj hv]
    | 5, _, hv => simp only [HState.init, List.getElem?_cons_succ, List.getElem?_cons_zero] at hv ⊢; rw [← Option.some.inj hv]
    | 6, _, hv => simp only [HState.init, List.getElem?_cons_succ, List.getElem?_cons_zero] at hv ⊢; rw [← Option.some.inj hv]
    | 7, _, hv => simp only [HState.init, List.getElem?_cons_succ, List.getElem?_cons_zero] at hv ⊢; rw [← Option.some.inj hv]
  · have hi : i < 16 := by
      by_cases hi : i < 16
      · exact hi
      · rw [List.getElem?_eq_none (by simp [HState.init, zeros]; omega)] at hb; cases hb
    have hb0 : b = 0 := by
      simp only [HState.init, zeros] at hb
      rw [List.getElem?_replicate] at hb
      simp only [hi, if_true] at hb
      exact (Option.some.inj hb).symm
    have := w.rdb (8 + i / 4) 0 (by omega) (by
      have hq : i / 4 < 4 := by omega
      match i / 4, hq with
      | 0, _ => rfl
      | 1, _ => rfl
      | 2, _ => rfl
      | 3, _ => rfl) (i % 4) (by omega)
    rw [show 4 * (8 + i / 4) + i % 4 = 32 + i from by omega] at this
    refine ⟨.pub, ?_, by decide⟩
    rw [this, hb0]
    show some (byteOf 0 (i % 4), Lab.pub) = _
    rw [byteOf_zero]
  · have := readLE_of_bytesP X (4 * 12) 0 (by decide) (fun j hj => w.rdb 12 0 (by decide) rfl j hj)
    simpa [HState.init] using this


/-! ### same values, same definedness (labels may differ) -/

def VEq {α} (a b : α × Lab) : Prop := a.1 = b.1 ∧ ((a.2 = Lab.undef) = (b.2 = Lab.undef))
def BlockEqV (b1 b2 : Block) : Prop := b1.base = b2.base ∧ ARel VEq b1.bytes b2.bytes
def OthV (bs : Nat) (m m0 : Array Block) : Prop := ∀ j, j ≠ bs → ORel BlockEqV m[j]? m0[j]?

theorem VLe.toVEq {α} {a b : α × Lab} (h : VLe a b) : VEq a b := ⟨h.1, Lab.le_undef_iff h.2⟩
theorem VEq.symm {α} {a b : α × Lab} (h : VEq a b) : VEq b a := ⟨h.1.symm, h.2.symm⟩
theorem VEq.trans {α} {a b c : α × Lab} (h1 : VEq a b) (h2 : VEq b c) : VEq a c := ⟨h1.1.trans h2.1, h1.2.trans h2.2⟩

theorem ARel.map {α} {R S : α → α → Prop} (f : ∀ a b, R a b → S a b) {x y : Array α} (h : ARel R x y) : ARel S x y := by
  intro i
  have hi := h i
  cases hx : x[i]? with
  | none => cases hy : y[i]? with
    | none => trivial
    | some _ => rw [hx, hy] at hi; exact hi.elim
  | some a => cases hy : y[i]? with
    | none => rw [hx, hy] at hi; exact hi.elim
    | some b => rw [hx, hy] at hi; exact f a b hi

theorem ARel.symm' {α} {R : α → α → Prop} (f : ∀ a b, R a b → R b a) {x y : Array α} (h : ARel R x y) : ARel R y x := by
  intro i
  have hi := h i
  cases hx : x[i]? with
  | none => cases hy : y[i]? with
    | none => trivial
    | some _ => rw [hx, hy] at hi; exact hi.elim
  | some a => cases hy : y[i]? with
    | none => rw [hx, hy] at hi; exact hi.elim
    | some b => rw [hx, hy] at hi; exact f a b hi

theorem ARel.trans' {α} {R : α → α → Prop} (f : ∀ a b c, R a b → R b c → R a c) {x y z : Array α} (h1 : ARel R x y) (h2 : ARel R y z) : ARel R x z := by
  intro i
  have p := h1 i; have q := h2 i
  cases hx : x[i]? with
  | none => cases hy : y[i]? with
    | none => rw [hy] at q; cases hz : z[i]? with
      | none => trivial
      | some _ => rw [hz] at q; exact q.elim
    | some _ => rw [hx, hy] at p; exact p.elim
  | some a => cases hy : y[i]? with
    | none => rw [hx, hy] at p; exact p.elim
    | some b =>
      rw [hx, hy] at p; rw [hy] at q
      cases hz : z[i]? with
      | none => rw [hz] at q; exact q.elim
      | some c => rw [hz] at q; exact f a b c p q

theorem BlockLe.toEqV {a b : Block} (h : BlockLe a b) : BlockEqV a b := ⟨h.1, ARel.map (R := VLe) (S := VEq) (fun _ _ h => VLe.toVEq h) h.2⟩
theorem BlockEqV.symm {a b : Block} (h : BlockEqV a b) : BlockEqV b a := ⟨h.1.symm, ARel.symm' (R := VEq) (fun _ _ h => VEq.symm h) h.2⟩
theorem BlockEqV.trans {a b c : Block} (h1 : BlockEqV a b) (h2 : BlockEqV b c) : BlockEqV a c :=
  ⟨h1.1.trans h2.1, ARel.trans' (R := VEq) (fun _ _ _ p q => VEq.trans p q) h1.2 h2.2⟩

theorem orel_trans {α} {R : α → α → Prop} (f : ∀ a b c, R a b → R b c → R a c) {x y z : Option α} (h1 : ORel R x y) (h2 : ORel R y z) : ORel R x z := by
  cases x <;> cases y <;> cases z <;> first | trivial | exact h1.elim | exact h2.elim | exact f _ _ _ h1 h2

theorem orel_map {α} {R S : α → α → Prop} (f : ∀ a b, R a b → S a b) {x y : Option α} (h : ORel R x y) : ORel S x y := by
  cases x <;> cases y <;> first | trivial | exact h.elim | exact f _ _ h

theorem orel_symm {α} {R : α → α → Prop} (f : ∀ a b, R a b → R b a) {x y : Option α} (h : ORel R x y) : ORel R y x := by
  cases x <;> cases y <;> first | trivial | exact h.elim | exact f _ _ h

theorem OthLe.toV {bs : Nat} {m m0 : Array Block} (h : OthLe bs m m0) : OthV bs m m0 := fun j hj => orel_map (R := BlockLe) (S := BlockEqV) (fun _ _ h => BlockLe.toEqV h) (h j hj)
theorem OthV.trans {bs : Nat} {a b c : Array Block} (h1 : OthV bs a b) (h2 : OthV bs b c) : OthV bs a c :=
  fun j hj => orel_trans (R := BlockEqV) (fun _ _ _ p q => BlockEqV.trans p q) (h1 j hj) (h2 j hj)
theorem OthV.of_eq {bs : Nat} {m m0 : Array Block} (h : ∀ j, j ≠ bs → m[j]? = m0[j]?) : OthV bs m m0 := fun j hj => by
  rw [h j hj]
  cases m0[j]? with
  | none => trivial
  | some b => exact BlockLe.toEqV (BlockLe.refl b)

theorem enter_init (ps : Nat) (mem : Array Block) :
    (enterFun f_tinyjambu_hash_init [(ps, .pub)] mem).2 = mem ∧ (enterFun f_tinyjambu_hash_init [(ps, .pub)] mem).1.size = 15 ∧
    (enterFun f_tinyjambu_hash_init [(ps, .pub)] mem).1[0]? = some (ps, .pub) := ⟨rfl, rfl, rfl⟩

/-- **`tinyjambu_hash_init(state)` as a call**: whatever the object held (undefined bytes included), it represents an initialised state -/
theorem init_call (prog : Program) (fn : Nat) (hprog : prog[fn]? = some f_tinyjambu_hash_init) (env : Env) (st : St) (es : Expr)
    (bs baseS : Nat) (X : Array LByte) (hes : evalE env es = .ok (mkPtr bs baseS, .pub)) (hb : st.mem[bs]? = some ⟨X, baseS⟩)
    (hsz : 52 ≤ X.size) (hal : baseS % 4 = 0) (hlt : baseS + X.size < ptrBase) (hbs30 : bs < 2 ^ 30) (old : HState) :
    RunsTo prog (.call none fn [es]) env st (fun sig e s => sig = .normal ∧ e = env ∧ s.ent = st.ent ∧ s.mem.size = st.mem.size ∧
      (∀ j, j ≠ bs → s.mem[j]? = st.mem[j]?) ∧ ∃ X', s.mem[bs]? = some ⟨X', baseS⟩ ∧ X'.size = X.size ∧ HObjV X' (HState.init old)) := by
  obtain ⟨em, e15, e0⟩ := enter_init (mkPtr bs baseS) st.mem
  refine runs_call_none f_tinyjambu_hash_init [(mkPtr bs baseS, .pub)] hprog (by simp only [evalArgs, hes]) rfl ?_
  refine (init_body prog _ { st with mem := (enterFun f_tinyjambu_hash_init _ st.mem).2 } bs baseS X e15 e0 (by rw [em]; exact hb) hsz hal hlt hbs30).weaken ?_
  intro sig e s ⟨_, ii⟩
  obtain ⟨X', hm, hXs, hw⟩ := ii.obj
  have hmsz : s.mem.size = st.mem.size := ii.msz
  have hext : s.mem.extract 0 st.mem.size = s.mem := by rw [← hmsz]; exact extract_self _
  simp only [hext]
  exact ⟨trivial, trivial, ii.ent, hmsz, ii.oth, X', hm, hXs, HObjV.ofInit old (by rw [hXs]; exact hsz) hw⟩

/-- **`tinyjambu_hash_update` as a call, for any defined labels** -/
theorem update_callV (prog : Program) (fn : Nat) (hprog : prog[fn]? = some f_tinyjambu_hash_update)
    (hcomp : prog[idx_tinyjambu_hash_compress]? = some f_tinyjambu_hash_compress)
    (hperm : prog[idx_tinyjambu_permutation_256]? = some f_tinyjambu_permutation_256)
    (env : Env) (st : St) (es ei el : Expr) (bs bi : Nat) (X XI : Array LByte) (baseS basei off : Nat) (h : HState) (data : Bytes)
    (hes : evalE env es = .ok (mkPtr bs baseS, .pub)) (hei : evalE env ei = .ok (mkPtr bi (basei + off), .pub))
    (hel : evalE env el = .ok (data.length, .pub))
    (hS : st.mem[bs]? = some ⟨X, baseS⟩) (hI : st.mem[bi]? = some ⟨XI, basei⟩) (hne : bi ≠ bs)
    (hrep : HObjV X h) (halS : baseS % 4 = 0) (hltS : baseS + X.size < ptrBase) (hltI : basei + XI.size < ptrBase)
    (hbs30 : bs < 2 ^ 30) (hbi30 : bi < 2 ^ 30) (hsz : st.mem.size + 2 < 2 ^ 30)
    (hdata : ∀ k b, data[k]? = some b → ∃ l, XI[off + k]? = some (b, l) ∧ l ≠ Lab.undef) (inb : off + data.length ≤ XI.size) :
    RunsTo prog (.call none fn [es, ei, el]) env st (fun sig e s => sig = .normal ∧ EnvLe e env ∧ s.ent = st.ent ∧ s.mem.size = st.mem.size ∧
      OthV bs s.mem st.mem ∧
      ∃ blk', s.mem[bs]? = some blk' ∧ blk'.base = baseS ∧ blk'.bytes.size = X.size ∧ HObjV blk'.bytes (h.update data)) := by
  let XS' := raiseTo 48 X
  let XI' := raiseTo XI.size XI
  let m1 := setBlock st.mem bs XS'
  let hi : St := { st with mem := setBlock m1 bi XI' }
  have hS1 : m1[bs]? = some ⟨XS', baseS⟩ := by show (setBlock st.mem bs _)[bs]? = _; rw [getElem?_setBlock', if_pos rfl, hS]; rfl
  have hI1 : m1[bi]? = some ⟨XI, basei⟩ := by show (setBlock st.mem bs _)[bi]? = _; rw [getElem?_setBlock', if_neg hne]; exact hI
  have hSh : hi.mem[bs]? = some ⟨XS', baseS⟩ := by
    show (setBlock m1 bi _)[bs]? = _; rw [getElem?_setBlock', if_neg (fun e => hne e.symm)]; exact hS1
  have hIh : hi.mem[bi]? = some ⟨XI', basei⟩ := by show (setBlock m1 bi _)[bi]? = _; rw [getElem?_setBlock', if_pos rfl, hI1]; rfl
  have hle : StLe st hi :=
    ⟨memLe_trans (memLe_setBlock hS (bytesLe_raiseTo 48 X)) (memLe_setBlock hI1 (bytesLe_raiseTo XI.size XI)), rfl, rfl⟩
  have hdata' : ∀ k b, data[k]? = some b → XI'[off + k]? = some (b, Lab.sec) := by
    intro k b hb
    obtain ⟨l, hx, hl⟩ := hdata k b hb
    have hlt : off + k < XI.size := by
      have : k < data.length := by
        by_cases hk : k < data.length
        · exact hk
        · rw [List.getElem?_eq_none (by omega)] at hb; cases hb
      omega
    show (raiseTo XI.size XI)[off + k]? = _
    rw [getElem?_raiseTo, hx]
    simp only [Option.map, hlt, if_true, hl, if_false]
  let g : UGeo := ⟨prog, hi.mem, bs, baseS, X.size, bi, basei, XI', st.ent, hcomp, hperm, hne, hbs30, hbi30,
    by show (setBlock (setBlock st.mem bs _) bi _).size + 2 < 2 ^ 30; rw [size_setBlock', size_setBlock']; exact hsz, halS, hrep.sz, hltS,
    by show basei + (raiseTo XI.size XI).size < ptrBase; rw [size_raiseTo]; exact hltI, hIh⟩
  have hrun := update_call g fn hprog env hi es ei el h off data hes hei hel ⟨XS', hSh, hrep.raise, size_raiseTo 48 X⟩ (fun _ _ => rfl) rfl rfl hdata'
    (by show off + data.length ≤ (raiseTo XI.size XI).size; rw [size_raiseTo]; exact inb)
  refine (hrun.lower (envLe_refl env) hle).weaken ?_
  intro sig e s ⟨sig2, e', s', ⟨hs2, he2, hent2, hsz2, hoth2, X2, hm2, hX2s, ho2⟩, hg, hee, hss⟩
  subst hs2 he2
  have hsig : sig = .normal := by cases sig <;> first | rfl | exact hg.elim
  have hrel := hss.mem bs
  rw [hm2] at hrel
  refine ⟨hsig, hee, by rw [hss.ent, hent2], ?_, ?_, ?_⟩
  · rw [hss.mem.size_eq, hsz2]; show (setBlock (setBlock st.mem bs _) bi _).size = _; rw [size_setBlock', size_setBlock']
  · intro j hj
    have a := hss.mem j
    rw [hoth2 j hj] at a
    have b : ORel BlockLe st.mem[j]? hi.mem[j]? := hle.mem j
    exact orel_trans (R := BlockEqV) (fun _ _ _ p q => BlockEqV.trans p q) (orel_map (R := BlockLe) (S := BlockEqV) (fun _ _ h => BlockLe.toEqV h) a)
      (orel_symm (R := BlockEqV) (fun _ _ h => BlockEqV.symm h) (orel_map (R := BlockLe) (S := BlockEqV) (fun _ _ h => BlockLe.toEqV h) b))
  · cases hb1 : s.mem[bs]? with
    | none => rw [hb1] at hrel; exact hrel.elim
    | some blk' =>
      rw [hb1] at hrel
      exact ⟨blk', rfl, hrel.1, by rw [hrel.2.size_eq, hX2s], ho2.lower hrel.2⟩

theorem prog_free : prog[idx_tinyjambu_hash_free]? = some f_tinyjambu_hash_free := by
  simp only [prog, idx_tinyjambu_hash_free, List.getElem?_cons_succ, List.getElem?_cons_zero]
theorem prog_init : prog[idx_tinyjambu_hash_init]? = some f_tinyjambu_hash_init := by
  simp only [prog, idx_tinyjambu_hash_init, List.getElem?_cons_succ, List.getElem?_cons_zero]
theorem prog_finalize : prog[idx_tinyjambu_hash_finalize]? = some f_tinyjambu_hash_finalize := by
  simp only [prog, idx_tinyjambu_hash_finalize, List.getElem?_cons_succ, List.getElem?_cons_zero]
theorem prog_hash : prog[idx_tinyjambu_hash]? = some f_tinyjambu_hash := by
  simp only [prog, idx_tinyjambu_hash, List.getElem?_cons_succ, List.getElem?_cons_zero]

/-- `tinyjambu_hash_free(state)` as a call in the regenerated program -/
theorem free_call (env : Env) (st : St) (ep : Expr) (b : Nat) (blk : Block) (hep : evalE env ep = .ok (mkPtr b 0, .pub))
    (hb : st.mem[b]? = some blk) (hbase : blk.base = 0) (hsz : blk.bytes.size = 56) :
    RunsTo prog (.call none idx_tinyjambu_hash_free [ep]) env st (fun sig e s => sig = .normal ∧ e = env ∧ s.ent = st.ent ∧
      s.mem = setBlock st.mem b (Array.replicate 56 (0, Lab.pub))) := by
  refine runs_call_none f_tinyjambu_hash_free [(mkPtr b 0, .pub)] prog_free (by simp only [evalArgs, hep]) rfl ?_
  refine ⟨0 + 3, _, _, _, exec_hash_free_body 0 { st with mem := (enterFun f_tinyjambu_hash_free [(mkPtr b 0, .pub)] st.mem).2 } b blk hb hbase hsz, ?_⟩
  refine ⟨rfl, rfl, rfl, ?_⟩
  show (setBlock st.mem b _).extract 0 st.mem.size = _
  exact extract_setBlock st.mem b _

end TJ.MiniC.Hoare
