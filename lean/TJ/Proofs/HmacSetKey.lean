/-
  TJ.Proofs.HmacSetKey — tinyjambu_hmac_set_key on the regenerated term: the branch on the key length (copy, or hash the key into the pad), fill,
  xor loop, absorbing the block, wiping the pad.
-/
import TJ.Proofs.HmacCore
import TJ.Proofs.SivCore
namespace TJ.MiniC.Hoare
open TJ TJ.MiniC TJ.MiniC.PermC TJ.Gen.MiniC

/-- a block related by value-equality to a block with known base and size -/
theorem eqv_block {m : Array Block} {j : Nat} {Y : Array LByte} {base : Nat} (h : ORel BlockEqV m[j]? (some ⟨Y, base⟩)) :
    ∃ Z, m[j]? = some ⟨Z, base⟩ ∧ Z.size = Y.size ∧ ARel VEq Z Y := by
  cases hb : m[j]? with
  | none => rw [hb] at h; exact h.elim
  | some blk =>
    rw [hb] at h
    have h1 : blk.base = base := h.1
    exact ⟨blk.bytes, by rw [← h1], ARel.size_eq h.2, h.2⟩

theorem bytesV_of_veq {Z Y : Array LByte} (h : ARel VEq Z Y) {off : Nat} {bs : Bytes} (hd : BytesV Y off bs) : BytesV Z off bs := by
  refine ⟨by rw [ARel.size_eq h]; exact hd.1, fun k b hk => ?_⟩
  obtain ⟨l, hx, hl⟩ := hd.2 k b hk
  have := h (off + k)
  rw [hx] at this
  cases hz : Z[off + k]? with
  | none => rw [hz] at this; exact this.elim
  | some z =>
    rw [hz] at this
    obtain ⟨z1, z2⟩ := z
    have e1 : z1 = b := this.1
    have e2 : (z2 = Lab.undef) = (l = Lab.undef) := this.2
    exact ⟨z2, by rw [hz, e1], fun hu => hl (e2 ▸ hu)⟩


/-- the state of `tinyjambu_hmac_set_key` once the key block `kb` (the key, or its digest) lies at the start of the pad -/
structure SK1 (bs baseS n Xsz : Nat) (st0 : St) (kb : Bytes) (mask : UInt8) (env : Env) (s : St) : Prop where
  esz : env.size = 9
  e0 : env[0]? = some (mkPtr bs baseS, .pub)
  e2 : env[2]? = some (kb.length, .pub)
  e3 : EnvHas env 3 mask.toNat
  e4 : env[4]? = some (mkPtr n 0, .pub)
  pad : ∃ Pd, s.mem[n]? = some ⟨Pd, 0⟩ ∧ Pd.size = 64 ∧ BytesV Pd 0 kb
  obj : ∃ X', s.mem[bs]? = some ⟨X', baseS⟩ ∧ X'.size = Xsz
  oth : ∀ j, j ≠ bs → j ≠ n → ORel BlockEqV s.mem[j]? st0.mem[j]?
  msz : s.mem.size = n + 1
  ent : s.ent = st0.ent

def skBranch : Stmt :=
  .ite (.bin .le .u64 (.var 2) (.cast .u64 .i32 (.lit 64)))
    (seqs [.memcpy (.var 4) (.var 1) (.var 2), .assign 5 (.var 4)])
    (seqs [.call none idx_tinyjambu_hash_init [.var 0], .call none idx_tinyjambu_hash_update [.var 0, .var 1, .var 2],
           .call none idx_tinyjambu_hash_finalize [.var 0, .var 4], .assign 1 (.var 4), .assign 2 (.cast .u64 .i32 (.lit 32))])

theorem orel_eqv_refl (x : Option Block) : ORel BlockEqV x x := by
  cases x with
  | none => trivial
  | some b => exact BlockLe.toEqV (BlockLe.refl b)

/-- the branch of `tinyjambu_hmac_set_key` on the key length -/
theorem sk_branch (st0 : St) (bs bk : Nat) (X XK : Array LByte) (baseS basek koff : Nat) (h : HState) (key : Bytes) (mask : UInt8) (lm : Lab)
    (hS : st0.mem[bs]? = some ⟨X, baseS⟩) (hK : st0.mem[bk]? = some ⟨XK, basek⟩) (hne : bk ≠ bs) (hXs : 52 ≤ X.size) (halS : baseS % 4 = 0)
    (hltS : baseS + X.size < ptrBase) (hltK : basek + XK.size < ptrBase) (hkd : BytesV XK koff key) (hsz : st0.mem.size + 3 < 2 ^ 30)
    (env : Env) (hes : env.size = 9) (h0 : env[0]? = some (mkPtr bs baseS, .pub)) (h1 : env[1]? = some (mkPtr bk (basek + koff), .pub))
    (h2 : env[2]? = some (key.length, .pub)) (h3 : env[3]? = some (mask.toNat, lm)) (hlm : lm ≠ Lab.undef) (h4 : env[4]? = some (mkPtr st0.mem.size 0, .pub))
    (st : St) (hmem : st.mem = st0.mem.push ⟨Array.replicate 64 (0, .undef), 0⟩) (hent : st.ent = st0.ent) :
    RunsTo prog skBranch env st (fun sig e' s' => sig = .normal ∧
      SK1 bs baseS st0.mem.size X.size st0 (if key.length ≤ 64 then key else ((h.init.update key).finalize).1) mask e' s') := by
  have hbsN := mem_lt hS; have hbkN := mem_lt hK
  have hm1lt : ∀ j, j < st0.mem.size → st.mem[j]? = st0.mem[j]? := by
    intro j hj; rw [hmem, Array.getElem?_push]; simp only [show ¬ j = st0.mem.size from by omega, if_false]
  have hm1n : st.mem[st0.mem.size]? = some ⟨Array.replicate 64 (0, .undef), 0⟩ := by rw [hmem, Array.getElem?_push]; simp
  have hm1sz : st.mem.size = st0.mem.size + 1 := by rw [hmem, Array.size_push]
  have hklen : key.length < 18446744073709551616 := by have := hkd.1; simp only [ptrBase] at hltK; omega
  unfold skBranch
  by_cases hle : key.length ≤ 64
  · simp only [hle, if_true]
    refine runs_ite_true 1 ?_ (by decide) ?_
    · simp only [evalE, h2, reduceCtorEq, if_false, castVal_u64_i32_lit 64 (by decide), BinOp.needsPub2, BinOp.needsPub1, Bool.false_and, Bool.or_self,
        Bool.false_eq_true, binVal, Ty.signed, hle, decide_true, b2n, if_true, Lab.join_pub_pub]
    simp only [seqs]
    refine runs_seq (Q := fun e s => e = env ∧ s.ent = st0.ent ∧ s.mem.size = st0.mem.size + 1 ∧ (∀ j, j < st0.mem.size → s.mem[j]? = st0.mem[j]?) ∧
        ∃ Pd, s.mem[st0.mem.size]? = some ⟨Pd, 0⟩ ∧ Pd.size = 64 ∧ BytesV Pd 0 key) ?_ ?_
    · by_cases hk0 : key.length = 0
      · refine runs_memcpy_zero (mkPtr st0.mem.size 0) (mkPtr bk (basek + koff)) (by simp only [evalE, h4, reduceCtorEq, if_false]) (by simp only [evalE, h1, reduceCtorEq, if_false])
          (by simp only [evalE, h2, hk0, reduceCtorEq, if_false]) ?_
        have hnil : key = [] := List.length_eq_zero_iff.mp hk0
        exact ⟨rfl, rfl, hent, hm1sz, hm1lt, _, hm1n, by simp, ⟨by rw [hnil]; simp, fun k b hk => by rw [hnil] at hk; simp at hk⟩⟩
      · have hKs : st.mem[bk]? = some ⟨XK, basek⟩ := by rw [hm1lt bk hbkN]; exact hK
        refine runs_memcpy (mkPtr st0.mem.size 0) (mkPtr bk (basek + koff)) key.length bk koff st0.mem.size 0 (by simp only [evalE, h4, reduceCtorEq, if_false])
          (by simp only [evalE, h1, reduceCtorEq, if_false]) (by simp only [evalE, h2, reduceCtorEq, if_false]) hk0
          (resolve_byte hKs koff (by have := hkd.1; omega) (by have := hkd.1; omega)) (by rw [blockBytes_of hKs]; exact hkd.1)
          (by have := resolve_byte hm1n 0 (by simp) (by simp [ptrBase]); simpa using this) (by rw [blockBytes_of hm1n]; simp; omega) ?_
        rw [blockBytes_of hm1n, blockBytes_of hKs]
        obtain ⟨gl, ge⟩ := sliceBytes_getV XK key koff hkd.2
        refine ⟨rfl, rfl, hent, by show (setBlock st.mem _ _).size = _; rw [size_setBlock']; exact hm1sz,
          fun j hj => by show (setBlock st.mem _ _)[j]? = _; rw [getElem?_setBlock', if_neg (by omega)]; exact hm1lt j hj,
          _, by show (setBlock st.mem _ _)[st0.mem.size]? = _; rw [getElem?_setBlock', if_pos rfl, hm1n]; rfl, by rw [size_writeBytes]; simp,
          bytesV_writeBytes _ 0 _ key gl (by simp; omega) ge⟩
    · intro e s ⟨he, hent', hsz', hlt', hpad⟩
      rw [he]
      refine runs_assign (mkPtr st0.mem.size 0, Lab.pub) (by simp only [evalE, h4, reduceCtorEq, if_false]) ?_
      have fr : ∀ y, y ≠ 5 → (setVar env 5 (mkPtr st0.mem.size 0, Lab.pub))[y]? = env[y]? := fun y hy => get_set_ne _ _ _ _ (fun e => hy e.symm)
      exact ⟨rfl, by rw [size_setVar]; exact hes, by rw [fr 0 (by decide)]; exact h0, by rw [fr 2 (by decide)]; exact h2, ⟨lm, by rw [fr 3 (by decide)]; exact h3, hlm⟩,
        by rw [fr 4 (by decide)]; exact h4, hpad, ⟨X, by rw [hlt' bs hbsN]; exact hS, rfl⟩,
        fun j _ hjn => by
          by_cases hj : j < st0.mem.size
          · rw [hlt' j hj]; exact orel_eqv_refl _
          · rw [Array.getElem?_eq_none (by omega), Array.getElem?_eq_none (by omega)]; trivial,
        hsz', hent'⟩
  · simp only [hle, if_false]
    refine runs_ite_false ?_ ?_
    · simp only [evalE, h2, reduceCtorEq, if_false, castVal_u64_i32_lit 64 (by decide), BinOp.needsPub2, BinOp.needsPub1, Bool.false_and, Bool.or_self,
        Bool.false_eq_true, binVal, Ty.signed, hle, decide_false, b2n, Lab.join_pub_pub]
    simp only [seqs]
    have hSs : ({ st with leak := Ev.br false :: st.leak } : St).mem[bs]? = some ⟨X, baseS⟩ := by show st.mem[bs]? = _; rw [hm1lt bs hbsN]; exact hS
    -- init
    refine runs_seq (Q := fun e s => e = env ∧ s.ent = st0.ent ∧ s.mem.size = st0.mem.size + 1 ∧ (∀ j, j ≠ bs → s.mem[j]? = st.mem[j]?) ∧
        ∃ X', s.mem[bs]? = some ⟨X', baseS⟩ ∧ X'.size = X.size ∧ HObjV X' (HState.init h)) ?_ ?_
    · refine (init_call prog idx_tinyjambu_hash_init prog_init env _ (.var 0) bs baseS X (by simp only [evalE, h0, reduceCtorEq, if_false]) hSs hXs halS hltS (by omega) h).weaken ?_
      intro sig e s ⟨g1, g2, g3, g4, g5, g6⟩
      exact ⟨g1, g2, by rw [g3]; exact hent, by rw [g4]; exact hm1sz, g5, g6⟩
    intro e1 s1 ⟨he1, hent1, hsz1, hoth1, X1, hX1, hX1s, ho1⟩
    rw [he1]
    have hK1 : s1.mem[bk]? = some ⟨XK, basek⟩ := by rw [hoth1 bk hne, hm1lt bk hbkN]; exact hK
    -- update with the key
    have hpad1 : s1.mem[st0.mem.size]? = some ⟨Array.replicate 64 (0, .undef), 0⟩ := by rw [hoth1 _ (by omega)]; exact hm1n
    refine runs_seq (Q := fun e s => EnvLe e env ∧ s.ent = st0.ent ∧ s.mem.size = st0.mem.size + 1 ∧ OthV bs s.mem s1.mem ∧
        ∃ X', s.mem[bs]? = some ⟨X', baseS⟩ ∧ X'.size = X.size ∧ HObjV X' ((HState.init h).update key)) ?_ ?_
    · refine (update_callV prog idx_tinyjambu_hash_update prog_update prog_compress prog_p256 env s1 (.var 0) (.var 1) (.var 2) bs bk X1 XK baseS basek koff (HState.init h) key
        (by simp only [evalE, h0, reduceCtorEq, if_false]) (by simp only [evalE, h1, reduceCtorEq, if_false]) (by simp only [evalE, h2, reduceCtorEq, if_false])
        hX1 hK1 hne ho1 halS (by rw [hX1s]; exact hltS) hltK (by omega) (by omega) (by omega) hkd.2 hkd.1).weaken ?_
      intro sig e s ⟨g1, g2, g3, g4, g5, blk', g6, g7, g8, g9⟩
      exact ⟨g1, g2, by rw [g3]; exact hent1, by rw [g4]; exact hsz1, g5, blk'.bytes, by rw [g6, ← g7], by rw [g8]; exact hX1s, g9⟩
    intro e2 s2 ⟨hle2, hent2, hsz2, hoth2, X2, hX2, hX2s, ho2⟩
    have e2_0 := envLe_pub hle2 0 _ h0
    have e2_2 := envLe_pub hle2 2 _ h2
    have e2_4 := envLe_pub hle2 4 _ h4
    have e2_3 : EnvHas e2 3 mask.toNat := envLe_has hle2 ⟨lm, h3, hlm⟩
    have hes2 : e2.size = 9 := by rw [hle2.size_eq]; exact hes
    obtain ⟨Pd2, hP2, hP2s, _⟩ := eqv_block (by have := hoth2 st0.mem.size (by omega); rw [hpad1] at this; exact this)
    -- finalize into the pad
    refine runs_seq (Q := fun e s => e = e2 ∧ s.ent = st0.ent ∧ s.mem.size = st0.mem.size + 1 ∧
        (∃ X', s.mem[bs]? = some ⟨X', baseS⟩ ∧ X'.size = X.size) ∧
        (∃ Pd, s.mem[st0.mem.size]? = some ⟨Pd, 0⟩ ∧ Pd.size = 64 ∧ BytesV Pd 0 ((HState.init h).update key).finalize.1) ∧
        (∀ j, j ≠ bs → j ≠ st0.mem.size → ORel BlockLe s.mem[j]? s2.mem[j]?)) ?_ ?_
    · refine (finalize_call prog idx_tinyjambu_hash_finalize prog_finalize prog_compress prog_p256 e2 s2 (.var 0) (.var 4) bs st0.mem.size X2 Pd2 baseS 0 0 ((HState.init h).update key)
        (by simp only [evalE, e2_0, reduceCtorEq, if_false]) (by simp only [evalE, e2_4, reduceCtorEq, if_false, Nat.add_zero]) hX2 hP2 (by omega) ho2 halS (by rw [hX2s]; exact hltS)
        (by rw [hP2s]; simp [ptrBase]) (by rw [hP2s]; simp) (by omega) (by omega) (by omega)).weaken ?_
      intro sig e s ⟨g1, g2, g3, g4, ⟨blkS, g5, g6, g7, _⟩, ⟨blkO, g8, g9, g10, g11, _⟩, g13⟩
      refine ⟨g1, g2, by rw [g3]; exact hent2, by rw [g4]; exact hsz2, ⟨blkS.bytes, by rw [g5, ← g6], by rw [g7]; exact hX2s⟩,
        ⟨blkO.bytes, by rw [g8, ← g9], by rw [g10, hP2s]; simp, ⟨by rw [g10, hP2s, finalize_length]; simp, fun k b hk => ?_⟩⟩, g13⟩
      obtain ⟨l, hx, hl⟩ := g11 k b hk
      exact ⟨l, hx, hl⟩
    intro e3 s3 ⟨he3, hent3, hsz3, hobj3, hpad3, hoth3⟩
    rw [he3]
    -- key = pad; keylen = 32
    refine runs_seq (Q := fun e s => e = setVar e2 1 (mkPtr st0.mem.size 0, .pub) ∧ s = s3) (runs_assign _ (by simp only [evalE, e2_4, reduceCtorEq, if_false]) ⟨rfl, rfl, rfl⟩) ?_
    intro e4 s4 ⟨he4, hs4⟩; rw [he4, hs4]
    refine runs_assign (32, .pub) (by simp only [evalE, castVal_u64_i32_lit 32 (by decide)]) ?_
    have fr : ∀ y, y ≠ 1 → y ≠ 2 → (setVar (setVar e2 1 (mkPtr st0.mem.size 0, Lab.pub)) 2 (32, Lab.pub))[y]? = e2[y]? := fun y h1' h2' => by
      rw [get_set_ne _ _ _ _ (fun e => h2' e.symm), get_set_ne _ _ _ _ (fun e => h1' e.symm)]
    refine ⟨rfl, by simp only [size_setVar]; exact hes2, by rw [fr 0 (by decide) (by decide)]; exact e2_0,
      by rw [get_set_eq _ _ _ (by simp only [size_setVar]; omega), finalize_length], e2_3.frame (fr 3 (by decide) (by decide)), by rw [fr 4 (by decide) (by decide)]; exact e2_4,
      hpad3, hobj3, fun j hjs hjn => ?_, hsz3, hent3⟩
    have a : ORel BlockEqV s3.mem[j]? s2.mem[j]? := orel_map (R := BlockLe) (S := BlockEqV) (fun _ _ h => BlockLe.toEqV h) (hoth3 j hjs hjn)
    have b : ORel BlockEqV s2.mem[j]? s1.mem[j]? := hoth2 j hjs
    rw [hoth1 j hjs] at b
    have c : ORel BlockEqV st.mem[j]? st0.mem[j]? := by
      by_cases hj : j < st0.mem.size
      · rw [hm1lt j hj]; exact orel_eqv_refl _
      · rw [Array.getElem?_eq_none (by omega), Array.getElem?_eq_none (by omega)]; trivial
    exact orel_trans (R := BlockEqV) (fun _ _ _ p q => BlockEqV.trans p q) (orel_trans (R := BlockEqV) (fun _ _ _ p q => BlockEqV.trans p q) a b) c


def skRest : Stmt :=
  seqs [seqs [.memset (.bin .add .u64 (.var 4) (.var 2)) (.cast .i32 .u8 (.var 3)) (.bin .sub .u64 (.cast .u64 .i32 (.lit 64)) (.var 2)),
              .assign 6 (.bin .add .u64 (.var 4) (.var 2))],
        .loop xorLoopBody,
        .call none idx_tinyjambu_hash_init [.var 0],
        .call none idx_tinyjambu_hash_update [.var 0, .var 4, .lit 64],
        .call none idx_tinyjambu_clean [.var 4, .lit 64]]

/-- the rest of `tinyjambu_hmac_set_key`: fill, xor, absorb the block, wipe the pad -/
theorem sk_rest (st0 : St) (bs : Nat) (baseS Xsz : Nat) (h : HState) (kb : Bytes) (hkb : kb.length ≤ 64) (mask : UInt8)
    (hbs : bs < st0.mem.size) (hXs : 52 ≤ Xsz) (halS : baseS % 4 = 0) (hltS : baseS + Xsz < ptrBase) (hsz : st0.mem.size + 3 < 2 ^ 30)
    (env : Env) (st : St) (sk : SK1 bs baseS st0.mem.size Xsz st0 kb mask env st) :
    RunsTo prog skRest env st (fun sig e' s' => sig = .normal ∧ s'.ent = st0.ent ∧ s'.mem.size = st0.mem.size + 1 ∧
      (∃ X', s'.mem[bs]? = some ⟨X', baseS⟩ ∧ X'.size = Xsz ∧ HObjV X' ((HState.init h).update (hmacBlock kb mask))) ∧
      (∀ j, j ≠ bs → j ≠ st0.mem.size → ORel BlockEqV s'.mem[j]? st0.mem[j]?)) := by
  obtain ⟨Pd, hP, hPs, hPd⟩ := sk.pad
  obtain ⟨lm, h3, hlm⟩ := sk.e3
  obtain ⟨X1, hX1, hX1s⟩ := sk.obj
  have hes := sk.esz
  have hptr : (mkPtr st0.mem.size 0 + kb.length) % 18446744073709551616 = mkPtr st0.mem.size (0 + kb.length) := ptr_off _ 0 kb.length (by omega) (by simp [ptrBase]; omega)
  have hdst : evalE env (.bin .add .u64 (.var 4) (.var 2)) = .ok (mkPtr st0.mem.size (0 + kb.length), .pub) := by
    simp only [evalE, sk.e4, sk.e2, reduceCtorEq, if_false, BinOp.needsPub2, BinOp.needsPub1, Bool.false_and, Bool.or_self, Bool.false_eq_true, binVal, Ty.modulus, Lab.join_pub_pub, hptr]
  have hval : evalE env (.cast .i32 .u8 (.var 3)) = .ok (mask.toNat, lm) := by
    simp only [evalE, h3, hlm, if_false, TJ.MiniC.CheckTagC.castVal_i32_u8]
  have hcnt : evalE env (.bin .sub .u64 (.cast .u64 .i32 (.lit 64)) (.var 2)) = .ok (64 - kb.length, .pub) := by
    simp only [evalE, sk.e2, reduceCtorEq, if_false, castVal_u64_i32_lit 64 (by decide), BinOp.needsPub2, BinOp.needsPub1, Bool.false_and, Bool.or_self, Bool.false_eq_true, binVal,
      Ty.modulus, Lab.join_pub_pub, sub64 64 kb.length hkb (by decide) (by omega)]
  unfold skRest
  simp only [seqs]
  -- memset(pad + len, mask, 64 - len)
  refine runs_seq (Q := fun e s => e = setVar env 6 (mkPtr st0.mem.size (0 + kb.length), .pub) ∧ s.ent = st0.ent ∧ s.mem.size = st0.mem.size + 1 ∧
      (∀ j, j ≠ st0.mem.size → s.mem[j]? = st.mem[j]?) ∧
      ∃ Pm, s.mem[st0.mem.size]? = some ⟨Pm, 0⟩ ∧ Pm.size = 64 ∧ ∀ k, k < 64 → BV Pm k (padByte kb mask kb.length k)) ?_ ?_
  · refine runs_seq (Q := fun e s => e = env ∧ s.ent = st0.ent ∧ s.mem.size = st0.mem.size + 1 ∧ (∀ j, j ≠ st0.mem.size → s.mem[j]? = st.mem[j]?) ∧
        ∃ Pm, s.mem[st0.mem.size]? = some ⟨Pm, 0⟩ ∧ Pm.size = 64 ∧ ∀ k, k < 64 → BV Pm k (padByte kb mask kb.length k)) ?_ ?_
    · by_cases h64 : 64 - kb.length = 0
      · refine runs_memset_zero _ mask.toNat lm hdst hval (by rw [hcnt, h64]) ?_
        refine ⟨rfl, rfl, sk.ent, sk.msz, fun _ _ => rfl, Pd, hP, hPs, fun k hk => ?_⟩
        have := hPd.2 k (kb[k]'(by omega)) (List.getElem?_eq_getElem (by omega))
        simp only [padByte, show k < kb.length from by omega, if_true, Nat.zero_add] at this ⊢
        rw [List.getD_eq_getElem?_getD, List.getElem?_eq_getElem (by omega)]; exact this
      · refine runs_memset _ mask.toNat (64 - kb.length) st0.mem.size kb.length lm hdst hval hcnt h64
          (by have := resolve_byte hP kb.length (by omega) (by simp [ptrBase]; omega); exact this) (by rw [blockBytes_of hP, hPs]; omega) ?_
        rw [blockBytes_of hP]
        refine ⟨rfl, rfl, sk.ent, by show (setBlock st.mem _ _).size = _; rw [size_setBlock']; exact sk.msz,
          fun j hj => by show (setBlock st.mem _ _)[j]? = _; rw [getElem?_setBlock', if_neg hj],
          _, by show (setBlock st.mem _ _)[st0.mem.size]? = _; rw [getElem?_setBlock', if_pos rfl, hP]; rfl, by rw [size_writeBytes]; exact hPs, fun k hk => ?_⟩
        rw [show (mask.toNat % 256).toUInt8 = mask from by
          apply UInt8.toNat_inj.mp; simp [Nat.toUInt8, Nat.mod_eq_of_lt (UInt8.toNat_lt mask)]]
        simp only [padByte, Nat.lt_irrefl, if_false]
        by_cases hk1 : k < kb.length
        · have := hPd.2 k (kb[k]'hk1) (List.getElem?_eq_getElem hk1)
          obtain ⟨l, hx, hl⟩ := this
          simp only [hk1, if_true]
          refine ⟨l, ?_, hl⟩
          rw [getElem?_writeBytes, if_neg (by omega), List.getD_eq_getElem?_getD, List.getElem?_eq_getElem hk1]
          simpa using hx
        · simp only [hk1, if_false]
          refine ⟨lm, ?_, hlm⟩
          rw [getElem?_writeBytes, if_pos ⟨by omega, by simp; omega, by omega⟩, List.getElem?_replicate]
          simp; omega
    · intro e s ⟨he, g⟩
      rw [he]
      exact runs_assign _ hdst ⟨rfl, rfl, g⟩
  intro e1 s1 ⟨he1, hent1, hsz1, hoth1, Pm, hPm, hPms, hPmd⟩
  rw [he1]
  have fr1 : ∀ y, y ≠ 6 → (setVar env 6 (mkPtr st0.mem.size (0 + kb.length), Lab.pub))[y]? = env[y]? := fun y hy => get_set_ne _ _ _ _ (fun e => hy e.symm)
  -- the xor loop
  have xi0 : XI st0.mem.size kb mask lm s1.mem st0.ent kb.length (setVar env 6 (mkPtr st0.mem.size (0 + kb.length), Lab.pub)) s1 :=
    ⟨by rw [size_setVar]; exact hes, by rw [fr1 2 (by decide)]; exact sk.e2, by rw [fr1 3 (by decide)]; exact h3, by rw [fr1 4 (by decide)]; exact sk.e4, Or.inr trivial,
     ⟨Pm, hPm, hPms, hPmd⟩, fun _ _ => rfl, rfl, hent1⟩
  refine runs_seq (Q := fun e s => XI st0.mem.size kb mask lm s1.mem st0.ent 0 e s ∧ ∀ y, y ≠ 2 → y ≠ 7 → y ≠ 8 → e[y]? = (setVar env 6 (mkPtr st0.mem.size (0 + kb.length), Lab.pub))[y]?)
    (xor_loop st0.mem.size (by omega) kb hkb mask lm hlm s1.mem st0.ent _ kb.length (Nat.le_refl _) _ s1 xi0 (fun _ _ _ _ => rfl)) ?_
  intro e2 s2 ⟨xi, hfr2⟩
  obtain ⟨Px, hPx, hPxs, hPxd⟩ := xi.pad
  have e2_0 : e2[0]? = some (mkPtr bs baseS, .pub) := by rw [hfr2 0 (by decide) (by decide) (by decide), fr1 0 (by decide)]; exact sk.e0
  have hX2 : s2.mem[bs]? = some ⟨X1, baseS⟩ := by rw [xi.oth bs (by omega), hoth1 bs (by omega)]; exact hX1
  -- init; update with the block
  refine runs_seq (Q := fun e s => e = e2 ∧ s.ent = st0.ent ∧ s.mem.size = st0.mem.size + 1 ∧ (∀ j, j ≠ bs → s.mem[j]? = s2.mem[j]?) ∧
      ∃ X', s.mem[bs]? = some ⟨X', baseS⟩ ∧ X'.size = Xsz ∧ HObjV X' (HState.init h)) ?_ ?_
  · refine (init_call prog idx_tinyjambu_hash_init prog_init e2 s2 (.var 0) bs baseS X1 (by simp only [evalE, e2_0, reduceCtorEq, if_false]) hX2 (by rw [hX1s]; exact hXs) halS
      (by rw [hX1s]; exact hltS) (by omega) h).weaken ?_
    intro sig e s ⟨g1, g2, g3, g4, g5, X', g6, g7, g8⟩
    exact ⟨g1, g2, by rw [g3]; exact xi.ent, by rw [g4, xi.msz]; exact hsz1, g5, X', g6, by rw [g7]; exact hX1s, g8⟩
  intro e3 s3 ⟨he3, hent3, hsz3, hoth3, X3, hX3, hX3s, ho3⟩
  rw [he3]
  have hP3 : s3.mem[st0.mem.size]? = some ⟨Px, 0⟩ := by rw [hoth3 _ (by omega)]; exact hPx
  refine runs_seq (Q := fun e s => EnvLe e e2 ∧ s.ent = st0.ent ∧ s.mem.size = st0.mem.size + 1 ∧ OthV bs s.mem s3.mem ∧
      ∃ X', s.mem[bs]? = some ⟨X', baseS⟩ ∧ X'.size = Xsz ∧ HObjV X' ((HState.init h).update (hmacBlock kb mask))) ?_ ?_
  · refine (update_callV prog idx_tinyjambu_hash_update prog_update prog_compress prog_p256 e2 s3 (.var 0) (.var 4) (.lit 64) bs st0.mem.size X3 Px baseS 0 0 (HState.init h) (hmacBlock kb mask)
      (by simp only [evalE, e2_0, reduceCtorEq, if_false]) (by simp only [evalE, xi.e4, reduceCtorEq, if_false, Nat.add_zero]) (by simp only [evalE, hmacBlock_length kb mask hkb])
      hX3 hP3 (by omega) ho3 halS (by rw [hX3s]; exact hltS) (by rw [hPxs]; simp [ptrBase]) (by omega) (by omega) (by omega) ?_ (by rw [hmacBlock_length kb mask hkb, hPxs]; decide)).weaken ?_
    · intro k b hk
      have hk64 : k < 64 := by
        by_cases hh : k < 64
        · exact hh
        · rw [List.getElem?_eq_none (by rw [hmacBlock_length kb mask hkb]; omega)] at hk; cases hk
      rw [hmacBlock_get kb mask hkb k hk64] at hk
      obtain ⟨l, hx, hl⟩ := hPxd k hk64
      exact ⟨l, by rw [Nat.zero_add, ← Option.some.inj hk]; exact hx, hl⟩
    · intro sig e s ⟨g1, g2, g3, g4, g5, blk', g6, g7, g8, g9⟩
      exact ⟨g1, g2, by rw [g3]; exact hent3, by rw [g4]; exact hsz3, g5, blk'.bytes, by rw [g6, ← g7], by rw [g8]; exact hX3s, g9⟩
  intro e4 s4 ⟨hle4, hent4, hsz4, hoth4, X4, hX4, hX4s, ho4⟩
  -- wipe the pad
  have e4_4 := envLe_pub hle4 4 _ xi.e4
  obtain ⟨P4, hP4, hP4s, _⟩ := eqv_block (by have := hoth4 st0.mem.size (by omega); rw [hP3] at this; exact this)
  have hc := exec_call_clean 0 e4 s4 (.var 4) (.lit 64) (mkPtr st0.mem.size 0) 64 st0.mem.size 0 (by simp only [evalE, e4_4, reduceCtorEq, if_false]) (by simp only [evalE])
    (by decide) (by decide) (by have := resolve_byte hP4 0 (by omega) (by simp [ptrBase]); simpa using this) (by rw [blockBytes_of hP4, hP4s, hPxs]; decide)
  refine ⟨0 + 2, _, _, _, hc, rfl, hent4, by show (setBlock s4.mem _ _).size = _; rw [size_setBlock']; exact hsz4,
    ⟨X4, by show (setBlock s4.mem _ _)[bs]? = _; rw [getElem?_setBlock', if_neg (by omega)]; exact hX4, hX4s, ho4⟩, fun j hjs hjn => ?_⟩
  show ORel BlockEqV (setBlock s4.mem _ _)[j]? st0.mem[j]?
  rw [getElem?_setBlock', if_neg hjn]
  have a : ORel BlockEqV s4.mem[j]? s3.mem[j]? := hoth4 j hjs
  rw [hoth3 j hjs, xi.oth j hjn, hoth1 j hjn] at a
  exact orel_trans (R := BlockEqV) (fun _ _ _ p q => BlockEqV.trans p q) a (sk.oth j hjs hjn)

end TJ.MiniC.Hoare
