import TJ.Proofs.PbkdfBlocks
namespace TJ.MiniC.Hoare
open TJ TJ.MiniC TJ.MiniC.PermC TJ.Gen.MiniC

theorem pbkdf2Loop_length (pw salt : Bytes) (c n b : Nat) : (pbkdf2Loop pw salt c n b).length = n := by
  fun_induction pbkdf2Loop pw salt c n b with
  | case1 b => rfl
  | case2 n b hn hge ih => rw [List.length_append, ih, pbkdf2F_length]; omega
  | case3 n b hn hlt => rw [List.length_take, pbkdf2F_length]; omega

theorem prog_pbkdf2 : prog[idx_tinyjambu_pbkdf2]? = some f_tinyjambu_pbkdf2 := by
  simp only [prog, idx_tinyjambu_pbkdf2, List.getElem?_cons_succ, List.getElem?_cons_zero]

theorem pbBody_eq : pbBody = .seq (.assign 9 (.cast .u64 .i32 (.lit 1))) (.seq (.loop pbLoopBody) (.call none idx_tinyjambu_clean [.var 8, .lit 32])) := rfl

/-- **`tinyjambu_pbkdf2(out, outlen, password, passwordlen, salt, saltlen, count)`** on the regenerated term: `out` receives the model's
    `pbkdf2 outlen password salt count`; every other caller block is unchanged up to labels. -/
theorem pbkdf2_call (env : Env) (st : St) (eo eol ep epl esl esll ec : Expr)
    (bo bp bsl : Nat) (XO0 : Array LByte) (baseo oo n basep poff psz basesl sloff slsz : Nat) (pw salt : Bytes) (count : Nat)
    (heo : evalE env eo = .ok (mkPtr bo (baseo + oo), .pub)) (heol : evalE env eol = .ok (n, .pub))
    (hep : evalE env ep = .ok (mkPtr bp (basep + poff), .pub)) (hepl : evalE env epl = .ok (pw.length, .pub))
    (hesl : evalE env esl = .ok (mkPtr bsl (basesl + sloff), .pub)) (hesll : evalE env esll = .ok (salt.length, .pub))
    (hec : evalE env ec = .ok (count, .pub))
    (hO : st.mem[bo]? = some ⟨XO0, baseo⟩) (hP : HasBuf st.mem bp basep poff psz pw) (hSl : HasBuf st.mem bsl basesl sloff slsz salt)
    (hop : bo ≠ bp) (hosl : bo ≠ bsl) (hltO : baseo + XO0.size < ptrBase) (hltP : basep + psz < ptrBase) (hltSl : basesl + slsz < ptrBase)
    (hin : oo + n ≤ XO0.size) (hc64 : count < 18446744073709551616) (hsz : st.mem.size + 9 < 2 ^ 30) :
    RunsTo prog (.call none idx_tinyjambu_pbkdf2 [eo, eol, ep, epl, esl, esll, ec]) env st (fun sig e s => sig = .normal ∧ e = env ∧ s.ent = st.ent ∧
      s.mem.size = st.mem.size ∧
      (∃ XO, s.mem[bo]? = some ⟨XO, baseo⟩ ∧ XO.size = XO0.size ∧ BytesV XO oo (pbkdf2 n pw salt count) ∧ ∀ q, (q < oo ∨ oo + n ≤ q) → ORel VEq XO[q]? XO0[q]?) ∧
      (∀ j, j ≠ bo → ORel BlockEqV s.mem[j]? st.mem[j]?)) := by
  have hboN := mem_lt hO; have hbpN := hP.lt; have hbslN := hSl.lt
  let vs : List LVal := [(mkPtr bo (baseo + oo), .pub), (n, .pub), (mkPtr bp (basep + poff), .pub), (pw.length, .pub), (mkPtr bsl (basesl + sloff), .pub), (salt.length, .pub), (count, .pub)]
  refine runs_call_none f_tinyjambu_pbkdf2 vs prog_pbkdf2 (by simp only [evalArgs, heo, heol, hep, hepl, hesl, hesll, hec]; rfl) rfl ?_
  have hent : enterFun f_tinyjambu_pbkdf2 vs st.mem = (#[(mkPtr bo (baseo + oo), .pub), (n, .pub), (mkPtr bp (basep + poff), .pub), (pw.length, .pub), (mkPtr bsl (basesl + sloff), .pub),
      (salt.length, .pub), (count, .pub), (mkPtr st.mem.size 0, .pub), (mkPtr (st.mem.size + 1) 0, .pub), (0, .undef), (mkPtr (st.mem.size + 2) 0, .pub), (0, .undef)],
      ((st.mem.push ⟨Array.replicate 56 (0, .undef), 0⟩).push ⟨Array.replicate 32 (0, .undef), 0⟩).push ⟨Array.replicate 32 (0, .undef), 0⟩) := by
    simp only [enterFun, allocLocals, f_tinyjambu_pbkdf2, Array.size_push]; rfl
  rw [pb_body_eq, pbBody_eq, hent]
  generalize hm1 : ((st.mem.push ⟨Array.replicate 56 (0, .undef), 0⟩).push ⟨Array.replicate 32 (0, .undef), 0⟩).push ⟨Array.replicate 32 (0, .undef), 0⟩ = mem1
  have hm1sz : mem1.size = st.mem.size + 3 := by rw [← hm1]; simp only [Array.size_push]
  have hm1lt : ∀ j, j < st.mem.size → mem1[j]? = st.mem[j]? := by
    intro j hj; rw [← hm1, Array.getElem?_push, Array.getElem?_push, Array.getElem?_push]
    simp only [Array.size_push, show ¬ j = st.mem.size + 1 + 1 from by omega, show ¬ j = st.mem.size + 1 from by omega, show ¬ j = st.mem.size from by omega, if_false]
  have hm1a : mem1[st.mem.size]? = some ⟨Array.replicate 56 (0, .undef), 0⟩ := by
    rw [← hm1, Array.getElem?_push, Array.getElem?_push, Array.getElem?_push]
    simp only [Array.size_push, show ¬ st.mem.size = st.mem.size + 1 + 1 from by omega, show ¬ st.mem.size = st.mem.size + 1 from by omega, if_false, if_true]
  have hm1b : mem1[st.mem.size + 1]? = some ⟨Array.replicate 32 (0, .undef), 0⟩ := by
    rw [← hm1, Array.getElem?_push, Array.getElem?_push]
    simp only [Array.size_push, show ¬ st.mem.size + 1 = st.mem.size + 1 + 1 from by omega, if_false, if_true]
  have hm1c : mem1[st.mem.size + 2]? = some ⟨Array.replicate 32 (0, .undef), 0⟩ := by
    rw [← hm1, Array.getElem?_push, if_pos (by simp only [Array.size_push])]
  generalize hE : (#[(mkPtr bo (baseo + oo), Lab.pub), (n, Lab.pub), (mkPtr bp (basep + poff), Lab.pub), (pw.length, Lab.pub), (mkPtr bsl (basesl + sloff), Lab.pub),
      (salt.length, Lab.pub), (count, Lab.pub), (mkPtr st.mem.size 0, Lab.pub), (mkPtr (st.mem.size + 1) 0, Lab.pub), (0, Lab.undef), (mkPtr (st.mem.size + 2) 0, Lab.pub), (0, Lab.undef)] : Env) = E
  let G : POG := ⟨st.mem.size, bo, baseo, oo, n, bp, basep, poff, psz, bsl, basesl, sloff, slsz, pw, salt, count, st.ent, XO0, hboN, hbpN, hbslN, hop, hosl, hltO, hltP, hltSl, hin, hc64, hsz⟩
  refine runs_seq (Q := fun e s => e = setVar E 9 (1, .pub) ∧ s = { st with mem := mem1 }) (runs_assign (1, .pub) (by simp only [evalE, castVal_u64_i32_lit 1 (by decide)]) ⟨rfl, rfl, rfl⟩) ?_
  intro e0 s0 ⟨he0, hs0⟩; rw [he0, hs0]
  have x0 : PO G st.mem [] n 1 1 (setVar E 9 (1, .pub)) { st with mem := mem1 } := by
    refine ⟨by rw [size_setVar, ← hE]; rfl, by rw [get_set_ne _ _ _ _ (by decide), ← hE]; rfl, by rw [get_set_ne _ _ _ _ (by decide), ← hE]; rfl,
      by rw [get_set_ne _ _ _ _ (by decide), ← hE]; rfl, by rw [get_set_ne _ _ _ _ (by decide), ← hE]; rfl, by rw [get_set_ne _ _ _ _ (by decide), ← hE]; rfl,
      by rw [get_set_ne _ _ _ _ (by decide), ← hE]; rfl, by rw [get_set_ne _ _ _ _ (by decide), ← hE]; rfl, by rw [get_set_ne _ _ _ _ (by decide), ← hE]; rfl,
      by rw [get_set_ne _ _ _ _ (by decide), ← hE]; rfl, get_set_eq _ _ _ (by rw [← hE]; exact (by decide : 9 < 12)), by rw [get_set_ne _ _ _ _ (by decide), ← hE]; rfl,
      (by show ([] : Bytes).length + n = n; simp), rfl, rfl, hm1sz, ⟨_, hm1a, by simp⟩, ⟨_, hm1b, by simp⟩, ⟨_, hm1c, by simp⟩, ⟨XO0, by show mem1[bo]? = _; rw [hm1lt bo hboN]; exact hO, rfl, ⟨(by show oo + ([] : Bytes).length ≤ XO0.size; simp; omega), fun k b hk => by simp at hk⟩,
        fun q _ => orel_veq_refl _⟩, hP.eq (hm1lt bp hbpN), hSl.eq (hm1lt bsl hbslN), fun j hj _ => by show ORel BlockEqV mem1[j]? _; rw [hm1lt j hj]; exact orel_eqv_refl _⟩
  refine runs_seq (Q := fun e s => POF G st.mem (pbkdf2 n pw salt count) e s) ((pb_loop G st.mem (n / 32) [] n 1 rfl _ _ x0).weaken ?_) ?_
  · intro sig e s ⟨h1, h2⟩
    exact ⟨h1, by simpa [pbkdf2] using h2⟩
  intro e1 s1 x1
  obtain ⟨XU, hUm, hUs⟩ := x1.hU
  refine (clean_full_call e1 s1 (.var 8) (.lit 32) 32 (st.mem.size + 1) ⟨XU, 0⟩ hUm rfl hUs (by simp only [evalE, x1.e8, reduceCtorEq, if_false]; rfl) (by simp only [evalE])
    (by decide) (by decide)).weaken ?_
  intro sig e s ⟨_, _, hent2, hm2⟩
  have hszF : s.mem.size = st.mem.size + 3 := by rw [hm2, size_setBlock']; exact x1.msz
  have hlk : ∀ j, j < st.mem.size → (s.mem.extract 0 st.mem.size)[j]? = s1.mem[j]? := by
    intro j hj
    rw [Array.getElem?_extract, hszF]
    have : j < min st.mem.size (st.mem.size + 3) - 0 := by omega
    simp only [this, if_true, Nat.zero_add]
    rw [hm2, getElem?_setBlock', if_neg (by omega)]
  have hexs : (s.mem.extract 0 st.mem.size).size = st.mem.size := by rw [Array.size_extract, hszF]; omega
  obtain ⟨XO, g1, g2, g3, g4⟩ := x1.hO
  have hpl : (pbkdf2 n pw salt count).length = n := by
    unfold pbkdf2; exact pbkdf2Loop_length pw salt count n 1
  refine ⟨rfl, rfl, by show s.ent = st.ent; rw [hent2]; exact x1.ent, hexs, ⟨XO, by show (s.mem.extract 0 st.mem.size)[bo]? = _; rw [hlk bo hboN]; exact g1, g2, g3, fun q hq => g4 q (by rw [hpl]; exact hq)⟩, fun j hj => ?_⟩
  show ORel BlockEqV (s.mem.extract 0 st.mem.size)[j]? st.mem[j]?
  by_cases hjn : j < st.mem.size
  · rw [hlk j hjn]; exact x1.oth j hjn hj
  · rw [Array.getElem?_eq_none (by rw [hexs]; omega), Array.getElem?_eq_none (by omega)]; trivial

end TJ.MiniC.Hoare
