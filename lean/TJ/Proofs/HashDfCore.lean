import TJ.Proofs.HashEmpty
import TJ.Proofs.HkdfExtract
import TJ.Proofs.Hmac
namespace TJ.MiniC.Hoare
open TJ TJ.MiniC TJ.MiniC.PermC TJ.Gen.MiniC

/-- what a call leaves of a block: same base and size; outside the overwritten window `O` every byte keeps its value and stays defined/undefined,
    and outside `O` and the relabelled window `W` its label does not rise -/
def KeepW (O W : Nat → Prop) (b b0 : Block) : Prop :=
  b.base = b0.base ∧ b.bytes.size = b0.bytes.size ∧ ∀ q, ¬ O q → ORel VEq b.bytes[q]? b0.bytes[q]? ∧ (¬ W q → ORel VLe b.bytes[q]? b0.bytes[q]?)

theorem oveq_refl {α} (x : Option (α × Lab)) : ORel VEq x x := by
  cases x with
  | none => trivial
  | some b => exact ⟨rfl, rfl⟩

theorem orel_vle_veq {x y : Option LByte} (h : ORel VLe x y) : ORel VEq x y := orel_map (R := VLe) (S := VEq) (fun _ _ h => VLe.toVEq h) h

theorem KeepW.refl (O W : Nat → Prop) (b : Block) : KeepW O W b b :=
  ⟨rfl, rfl, fun q _ => ⟨oveq_refl _, fun _ => by cases b.bytes[q]? with | none => trivial | some x => exact VLe.refl x⟩⟩

theorem KeepW.of_le {b b0 : Block} (h : BlockLe b b0) (O W : Nat → Prop) : KeepW O W b b0 :=
  ⟨h.1, ARel.size_eq h.2, fun q _ => ⟨orel_vle_veq (h.2 q), fun _ => h.2 q⟩⟩

theorem KeepW.of_eqv_keepB {b b0 : Block} {W : Nat → Prop} (h : BlockEqV b b0) (k : KeepB W b b0) (O : Nat → Prop) : KeepW O W b b0 :=
  ⟨h.1, k.2.1, fun q _ => ⟨h.2 q, fun hw => k.2.2 q hw⟩⟩

theorem KeepW.trans {O W O' W' : Nat → Prop} {a b c : Block} (h1 : KeepW O W a b) (h2 : KeepW O' W' b c) :
    KeepW (fun q => O q ∨ O' q) (fun q => W q ∨ W' q) a c :=
  ⟨h1.1.trans h2.1, h1.2.1.trans h2.2.1, fun q hq =>
    ⟨orel_trans (R := VEq) (fun _ _ _ p r => VEq.trans p r) (h1.2.2 q (fun h => hq (Or.inl h))).1 (h2.2.2 q (fun h => hq (Or.inr h))).1,
     fun hw => orel_trans (R := VLe) (fun _ _ _ p r => vle_trans p r) ((h1.2.2 q (fun h => hq (Or.inl h))).2 (fun h => hw (Or.inl h)))
       ((h2.2.2 q (fun h => hq (Or.inr h))).2 (fun h => hw (Or.inr h)))⟩⟩

theorem KeepW.mono {O W O' W' : Nat → Prop} {a b : Block} (h : KeepW O W a b) (ho : ∀ q, O q → O' q) (hw : ∀ q, W q → W' q) : KeepW O' W' a b :=
  ⟨h.1, h.2.1, fun q hq => ⟨(h.2.2 q (fun x => hq (ho q x))).1, fun hn => (h.2.2 q (fun x => hq (ho q x))).2 (fun x => hn (hw q x))⟩⟩

theorem okeep_trans {O W O' W' : Nat → Prop} {x y z : Option Block} (h1 : ORel (KeepW O W) x y) (h2 : ORel (KeepW O' W') y z) :
    ORel (KeepW (fun q => O q ∨ O' q) (fun q => W q ∨ W' q)) x z := by
  cases x <;> cases y <;> cases z <;> first | trivial | exact h1.elim | exact h2.elim | exact KeepW.trans h1 h2

theorem okeep_mono {O W O' W' : Nat → Prop} {x y : Option Block} (h : ORel (KeepW O W) x y) (ho : ∀ q, O q → O' q) (hw : ∀ q, W q → W' q) :
    ORel (KeepW O' W') x y := by
  cases x <;> cases y <;> first | trivial | exact h.elim | exact KeepW.mono h ho hw

theorem okeep_of_eq {x y : Option Block} (h : x = y) (O W : Nat → Prop) : ORel (KeepW O W) x y := by
  subst h; cases x with | none => trivial | some b => exact KeepW.refl O W b

theorem okeep_of_le {x y : Option Block} (h : ORel BlockLe x y) (O W : Nat → Prop) : ORel (KeepW O W) x y := by
  cases x <;> cases y <;> first | trivial | exact h.elim | exact KeepW.of_le h O W

theorem okeep_of_eqv_keepB {x y : Option Block} {W : Nat → Prop} (h : ORel BlockEqV x y) (k : ORel (KeepB W) x y) (O : Nat → Prop) : ORel (KeepW O W) x y := by
  cases x <;> cases y <;> first | trivial | exact h.elim | exact KeepW.of_eqv_keepB h k O

/-- data lying outside the overwritten window survives (values and definedness) -/
theorem bytesV_keepW {O W : Nat → Prop} {X X0 : Array LByte} {base base0 : Nat} (k : KeepW O W ⟨X, base⟩ ⟨X0, base0⟩) {off : Nat} {d : Bytes} (hd : BytesV X0 off d)
    (hout : ∀ q, off ≤ q → q < off + d.length → ¬ O q) : BytesV X off d := by
  refine ⟨by have := k.2.1; have := hd.1; show off + d.length ≤ X.size; simp only at *; omega, fun i b hi => ?_⟩
  have hil : i < d.length := by
    by_cases h : i < d.length
    · exact h
    · rw [List.getElem?_eq_none (by omega)] at hi; cases hi
  obtain ⟨l, hx, hl⟩ := hd.2 i b hi
  have hv := (k.2.2 (off + i) (hout _ (by omega) (by omega))).1
  simp only at hv
  rw [hx] at hv
  cases hz : X[off + i]? with
  | none => rw [hz] at hv; exact hv.elim
  | some z =>
    rw [hz] at hv
    obtain ⟨z1, z2⟩ := z
    have e1 : z1 = b := hv.1
    have e2 : (z2 = Lab.undef) = (l = Lab.undef) := hv.2
    exact ⟨z2, by rw [hz, e1], fun hu => hl (e2 ▸ hu)⟩

theorem init_update3_finalize (p : HState) (a b c : Bytes) : ((((p.init.update a).update b).update c).finalize).1 = hash (a ++ b ++ c) := by
  have hf := foldl_update_spec [a, b, c] p.init (init_inv _)
  simp only [List.foldl_cons, List.foldl_nil, List.flatten_cons, List.flatten_nil, List.append_nil] at hf
  rw [finalize_spec _ hf.2.2.1, hf.1, hf.2.1, init_pend, List.nil_append, hash_eq_hashPure, List.append_assoc]; rfl

/-- `*p = v` for a byte-sized value with a defined label -/
theorem store_byte_val {env : Env} {st : St} (ea ev : Expr) (c : UInt8) (l : Lab) (b base q : Nat) (X : Array LByte)
    (hea : evalE env ea = .ok (mkPtr b (base + q), .pub)) (hev : evalE env ev = .ok (c.toNat, l))
    (hm : st.mem[b]? = some ⟨X, base⟩) (hq : q < X.size) (hlt : base + X.size < ptrBase)
    {Q : Sig → Env → St → Prop}
    (hQ : Q .normal env { st with leak := .wr (mkPtr b (base + q)) 1 :: st.leak, mem := setBlock st.mem b (X.setIfInBounds q (c, l)) }) :
    RunsTo prog (.store .u8 ea ev) env st Q := by
  refine runs_store (mkPtr b (base + q)) c.toNat b q 1 l rfl hea hev (resolve_byte hm q (by omega) (by omega)) ?_
  rw [blockBytes_of hm]
  have hwr : writeLE X q c.toNat l 1 = X.setIfInBounds q (c, l) := by
    simp only [writeLE, Nat.mod_eq_of_lt (UInt8.toNat_lt c)]
    congr 2
    exact UInt8.toNat_inj.mp (by simp [Nat.toUInt8])
  rw [hwr]; exact hQ

def dfHeader : Stmt := seqs [.store .u8 (.var 5) (.cast .u8 .i32 (.lit 1)), .store .u8 (.bin .add .u64 (.var 5) (.lit 1)) (.cast .u8 .i32 (.lit 0)),
  .store .u8 (.bin .add .u64 (.var 5) (.lit 2)) (.cast .u8 .i32 (.lit 0)), .store .u8 (.bin .add .u64 (.var 5) (.lit 3)) (.cast .u8 .i32 (.lit 1)),
  .store .u8 (.bin .add .u64 (.var 5) (.lit 4)) (.cast .u8 .i32 (.lit 0)), .store .u8 (.bin .add .u64 (.var 5) (.lit 5)) (.var 1)]

def dfBody : Stmt := seqs [dfHeader, .call none idx_tinyjambu_hash_init [.var 6],
  .ite (.bin .ne .i32 (.cast .i32 .u8 (.var 1)) (.lit 255)) (.call none idx_tinyjambu_hash_update [.var 6, .var 5, .cast .u64 .i32 (.lit 6)])
    (.call none idx_tinyjambu_hash_update [.var 6, .var 5, .cast .u64 .i32 (.lit 5)]),
  .call none idx_tinyjambu_hash_update [.var 6, .var 2, .cast .u64 .i32 (.lit 32)], .call none idx_tinyjambu_hash_update [.var 6, .var 3, .var 4],
  .call none idx_tinyjambu_hash_finalize [.var 6, .var 0], .call none idx_tinyjambu_hash_free [.var 6]]

theorem df_body_eq : f_tinyjambu_hash_df.body = dfBody := rfl

/-- the six header stores of `tinyjambu_hash_df` -/
theorem df_header {env : Env} {st : St} (nb : Nat) (marker : UInt8) (hnb : nb < 2 ^ 30) (h1 : env[1]? = some (marker.toNat, .pub)) (h5 : env[5]? = some (mkPtr nb 0, .pub))
    (hm : st.mem[nb]? = some ⟨Array.replicate 6 (0, .undef), 0⟩) :
    RunsTo prog dfHeader env st (fun sig e s => sig = .normal ∧ e = env ∧ s.ent = st.ent ∧ s.mem.size = st.mem.size ∧ (∀ j, j ≠ nb → s.mem[j]? = st.mem[j]?) ∧
      s.mem[nb]? = some ⟨#[(1, .pub), (0, .pub), (0, .pub), (1, .pub), (0, .pub), (marker, .pub)], 0⟩) := by
  have hp : ∀ k, k < 6 → (mkPtr nb 0 + k) % 18446744073709551616 = mkPtr nb (0 + k) := fun k hk => by rw [ptr_off nb 0 k hnb (by simp [ptrBase]; omega)]
  have ea : ∀ k, 0 < k → k < 6 → evalE env (.bin .add .u64 (.var 5) (.lit k)) = .ok (mkPtr nb (0 + k), .pub) := fun k _ hk => by
    simp only [evalE, h5, reduceCtorEq, if_false, BinOp.needsPub2, BinOp.needsPub1, Bool.false_and, Bool.or_self, Bool.false_eq_true, binVal, Ty.modulus, Lab.join_pub_pub, hp k hk]
  unfold dfHeader
  simp only [seqs]
  refine runs_seq (Q := fun e s => e = env ∧ s.ent = st.ent ∧ s.mem = setBlock st.mem nb ((Array.replicate 6 ((0 : UInt8), Lab.undef)).setIfInBounds 0 ((1 : Nat).toUInt8, .pub)))
    (store_const_byte (.var 5) 1 (by decide) nb 0 0 _ (by simp only [evalE, h5, reduceCtorEq, if_false]) hm (by simp) (by simp [ptrBase]) ⟨rfl, rfl, rfl, rfl⟩) ?_
  intro e1 s1 ⟨he1, hent1, hm1⟩; rw [he1]
  have g1 : s1.mem[nb]? = some ⟨(Array.replicate 6 ((0 : UInt8), Lab.undef)).setIfInBounds 0 ((1 : Nat).toUInt8, .pub), 0⟩ := by rw [hm1, getElem?_setBlock', if_pos rfl, hm]; rfl
  refine runs_seq (Q := fun e s => e = env ∧ s.ent = st.ent ∧ s.mem = setBlock s1.mem nb (((Array.replicate 6 ((0 : UInt8), Lab.undef)).setIfInBounds 0 ((1 : Nat).toUInt8, .pub)).setIfInBounds 1 ((0 : Nat).toUInt8, .pub)))
    (store_const_byte _ 0 (by decide) nb 0 1 _ (ea 1 (by decide) (by decide)) g1 (by simp) (by simp [ptrBase]) ⟨rfl, rfl, hent1, rfl⟩) ?_
  intro e2 s2 ⟨he2, hent2, hm2⟩; rw [he2]
  have g2 : s2.mem[nb]? = some ⟨((Array.replicate 6 ((0 : UInt8), Lab.undef)).setIfInBounds 0 ((1 : Nat).toUInt8, .pub)).setIfInBounds 1 ((0 : Nat).toUInt8, .pub), 0⟩ := by
    rw [hm2, getElem?_setBlock', if_pos rfl, g1]; rfl
  refine runs_seq (Q := fun e s => e = env ∧ s.ent = st.ent ∧ s.mem = setBlock s2.mem nb ((((Array.replicate 6 ((0 : UInt8), Lab.undef)).setIfInBounds 0 ((1 : Nat).toUInt8, .pub)).setIfInBounds 1 ((0 : Nat).toUInt8, .pub)).setIfInBounds 2 ((0 : Nat).toUInt8, .pub)))
    (store_const_byte _ 0 (by decide) nb 0 2 _ (ea 2 (by decide) (by decide)) g2 (by simp) (by simp [ptrBase]) ⟨rfl, rfl, hent2, rfl⟩) ?_
  intro e3 s3 ⟨he3, hent3, hm3⟩; rw [he3]
  have g3 : s3.mem[nb]? = some ⟨(((Array.replicate 6 ((0 : UInt8), Lab.undef)).setIfInBounds 0 ((1 : Nat).toUInt8, .pub)).setIfInBounds 1 ((0 : Nat).toUInt8, .pub)).setIfInBounds 2 ((0 : Nat).toUInt8, .pub), 0⟩ := by
    rw [hm3, getElem?_setBlock', if_pos rfl, g2]; rfl
  refine runs_seq (Q := fun e s => e = env ∧ s.ent = st.ent ∧ s.mem = setBlock s3.mem nb (((((Array.replicate 6 ((0 : UInt8), Lab.undef)).setIfInBounds 0 ((1 : Nat).toUInt8, .pub)).setIfInBounds 1 ((0 : Nat).toUInt8, .pub)).setIfInBounds 2 ((0 : Nat).toUInt8, .pub)).setIfInBounds 3 ((1 : Nat).toUInt8, .pub)))
    (store_const_byte _ 1 (by decide) nb 0 3 _ (ea 3 (by decide) (by decide)) g3 (by simp) (by simp [ptrBase]) ⟨rfl, rfl, hent3, rfl⟩) ?_
  intro e4 s4 ⟨he4, hent4, hm4⟩; rw [he4]
  have g4 : s4.mem[nb]? = some ⟨((((Array.replicate 6 ((0 : UInt8), Lab.undef)).setIfInBounds 0 ((1 : Nat).toUInt8, .pub)).setIfInBounds 1 ((0 : Nat).toUInt8, .pub)).setIfInBounds 2 ((0 : Nat).toUInt8, .pub)).setIfInBounds 3 ((1 : Nat).toUInt8, .pub), 0⟩ := by
    rw [hm4, getElem?_setBlock', if_pos rfl, g3]; rfl
  refine runs_seq (Q := fun e s => e = env ∧ s.ent = st.ent ∧ s.mem = setBlock s4.mem nb ((((((Array.replicate 6 ((0 : UInt8), Lab.undef)).setIfInBounds 0 ((1 : Nat).toUInt8, .pub)).setIfInBounds 1 ((0 : Nat).toUInt8, .pub)).setIfInBounds 2 ((0 : Nat).toUInt8, .pub)).setIfInBounds 3 ((1 : Nat).toUInt8, .pub)).setIfInBounds 4 ((0 : Nat).toUInt8, .pub)))
    (store_const_byte _ 0 (by decide) nb 0 4 _ (ea 4 (by decide) (by decide)) g4 (by simp) (by simp [ptrBase]) ⟨rfl, rfl, hent4, rfl⟩) ?_
  intro e5 s5 ⟨he5, hent5, hm5⟩; rw [he5]
  have g5 : s5.mem[nb]? = some ⟨(((((Array.replicate 6 ((0 : UInt8), Lab.undef)).setIfInBounds 0 ((1 : Nat).toUInt8, .pub)).setIfInBounds 1 ((0 : Nat).toUInt8, .pub)).setIfInBounds 2 ((0 : Nat).toUInt8, .pub)).setIfInBounds 3 ((1 : Nat).toUInt8, .pub)).setIfInBounds 4 ((0 : Nat).toUInt8, .pub), 0⟩ := by
    rw [hm5, getElem?_setBlock', if_pos rfl, g4]; rfl
  refine store_byte_val _ (.var 1) marker .pub nb 0 5 _ (ea 5 (by decide) (by decide)) (by simp only [evalE, h1, reduceCtorEq, if_false]) g5 (by simp) (by simp [ptrBase]) ?_
  refine ⟨rfl, rfl, hent5, ?_, fun j hj => ?_, ?_⟩
  · show (setBlock s5.mem nb _).size = _
    rw [size_setBlock', hm5, size_setBlock', hm4, size_setBlock', hm3, size_setBlock', hm2, size_setBlock', hm1, size_setBlock']
  · show (setBlock s5.mem nb _)[j]? = _
    rw [getElem?_setBlock', if_neg hj, hm5, getElem?_setBlock', if_neg hj, hm4, getElem?_setBlock', if_neg hj, hm3, getElem?_setBlock', if_neg hj, hm2, getElem?_setBlock', if_neg hj,
      hm1, getElem?_setBlock', if_neg hj]
  · show (setBlock s5.mem nb _)[nb]? = _
    rw [getElem?_setBlock', if_pos rfl, g5]; rfl

end TJ.MiniC.Hoare
