/-
  TJ.MiniC.Fuel — fuel monotonicity: a completed execution stays the same with more fuel.
-/
import TJ.MiniC.Sem
namespace TJ.MiniC

theorem leaveFun_ok {dst : Option Nat} {env : Env} {n : Nat} {o : Out} {sig : Sig} {env' : Env} {st' : St}
    (h : leaveFun dst env n o = .ok sig env' st') : ∃ g e s, o = .ok g e s := by
  cases o with
  | ok g e s => exact ⟨g, e, s, rfl⟩
  | fault k l => simp [leaveFun] at h
  | timeout => simp [leaveFun] at h

theorem exec_mono (prog : Program) : ∀ (n : Nat) (s : Stmt) (env : Env) (st : St) (sig : Sig) (env' : Env) (st' : St),
    exec prog n s env st = .ok sig env' st' → ∀ m, n ≤ m → exec prog m s env st = .ok sig env' st' := by
  intro n
  induction n with
  | zero => intro s env st sig env' st' h; simp [exec] at h
  | succ n ih =>
    intro s env st sig env' st' h m hm
    obtain ⟨m', rfl⟩ : ∃ m', m = m' + 1 := ⟨m - 1, by omega⟩
    have hm' : n ≤ m' := by omega
    cases s with
    | skip => simpa [exec] using h
    | brk => simpa [exec] using h
    | assign x e => simpa [exec] using h
    | ret e => cases e <;> simpa [exec] using h
    | load x t a => simpa [exec] using h
    | store t a e => simpa [exec] using h
    | memcpy d s c => simpa [exec] using h
    | memset d v c => simpa [exec] using h
    | entropy d b => simpa [exec] using h
    | seq a b =>
      simp only [exec] at h ⊢
      cases hr : exec prog n a env st with
      | timeout => rw [hr] at h; cases h
      | fault k l => rw [hr] at h; cases h
      | ok g e1 s1 =>
        rw [hr] at h
        rw [ih a env st g e1 s1 hr m' hm']
        cases g with
        | normal => exact ih b e1 s1 sig env' st' h m' hm'
        | brk => exact h
        | ret v => exact h
    | loop body =>
      simp only [exec] at h ⊢
      cases hr : exec prog n body env st with
      | timeout => rw [hr] at h; cases h
      | fault k l => rw [hr] at h; cases h
      | ok g e1 s1 =>
        rw [hr] at h
        rw [ih body env st g e1 s1 hr m' hm']
        cases g with
        | normal => exact ih (.loop body) e1 s1 sig env' st' h m' hm'
        | brk => exact h
        | ret v => exact h
    | ite c a b =>
      simp only [exec] at h ⊢
      cases hc : evalE env c with
      | error k => rw [hc] at h; cases h
      | ok vl =>
        obtain ⟨v, l⟩ := vl
        rw [hc] at h
        simp only at h ⊢
        split at h
        · cases h
        · rename_i hl
          simp only [hl, if_false]
          split at h
          · rename_i hv
            rw [if_pos hv]
            exact ih a env _ sig env' st' h m' hm'
          · rename_i hv
            rw [if_neg hv]
            exact ih b env _ sig env' st' h m' hm'
    | call dst f args =>
      simp only [exec] at h ⊢
      cases ha : evalArgs env args with
      | error k => rw [ha] at h; cases h
      | ok vs =>
        rw [ha] at h
        simp only at h ⊢
        cases hp : prog[f]? with
        | none => rw [hp] at h; cases h
        | some fd =>
          rw [hp] at h
          simp only at h ⊢
          split at h
          · cases h
          · rename_i hl
            simp only [hl, if_false]
            obtain ⟨g, e, s, ho⟩ := leaveFun_ok h
            rw [ih fd.body _ _ g e s ho m' hm']
            rw [ho] at h
            exact h
    | calli dst fp args =>
      simp only [exec] at h ⊢
      cases hf : evalE env fp with
      | error k => rw [hf] at h; cases h
      | ok vl =>
        obtain ⟨f, l⟩ := vl
        rw [hf] at h
        simp only at h ⊢
        split at h
        · cases h
        · rename_i hl
          simp only [hl, if_false]
          cases ha : evalArgs env args with
          | error k => rw [ha] at h; cases h
          | ok vs =>
            rw [ha] at h
            simp only at h ⊢
            split at h
            · rename_i hu
              rw [if_pos hu]
              exact h
            · rename_i hu
              rw [if_neg hu]
              split at h
              · cases h
              · rename_i hb
                simp only [hb, if_false]
                cases hp : prog[f - fnBase]? with
                | none => rw [hp] at h; cases h
                | some fd =>
                  rw [hp] at h
                  simp only at h ⊢
                  split at h
                  · cases h
                  · rename_i hlen
                    simp only [hlen, if_false]
                    obtain ⟨g, e, s, ho⟩ := leaveFun_ok h
                    rw [ih fd.body _ _ g e s ho m' hm']
                    rw [ho] at h
                    exact h

end TJ.MiniC
