/-
  TJ.MiniC.Frame — the footprint of an execution is what its leakage trace says.

  `exec_frame`: a completed execution of any statement / call of any program
    * leaves the number of memory blocks unchanged (callee blocks are released),
    * only extends the trace (`st'.leak = new ++ st.leak`),
    * leaves every block that no write event of `new` names (`wr`, destination of `cp`, `set`, `ent`)
      exactly as it was.
  Together with non-interference (TJ.MiniC.NI: the trace, hence this footprint, is the same for all
  contents, and public results do not depend on the contents of other objects) this is the model-level
  content of "no hidden state": everything a call reads or writes is a block it reaches through its
  arguments, and the trace enumerates those blocks.
-/
import TJ.MiniC.NI
namespace TJ.MiniC

/-- the block a pointer value designates -/
def ptrBlock (p : Nat) : Nat := p / ptrBase - 1

/-- blocks written by an event (a zero-length memcpy/memset/delivery writes nothing) -/
def evWrites : Ev → List Nat
  | .wr p _ => [ptrBlock p]
  | .cp d _ n => if n = 0 then [] else [ptrBlock d]
  | .set d n => if n = 0 then [] else [ptrBlock d]
  | .ent p n => if n = 0 ∨ p / ptrBase = 0 then [] else [ptrBlock p]
  | _ => []

/-- blocks actually read or written by an event (a zero-length memcpy/memset/delivery touches nothing — the library does
    call `memcpy(p, NULL, 0)` — and every other event carries a pointer that was resolved to a block) -/
def evTouches : Ev → List Nat
  | .rd p _ => [ptrBlock p]
  | .wr p _ => [ptrBlock p]
  | .cp d s n => if n = 0 then [] else [ptrBlock d, ptrBlock s]
  | .set d n => if n = 0 then [] else [ptrBlock d]
  | .ent p n => if n = 0 ∨ p / ptrBase = 0 then [] else [ptrBlock p]
  | _ => []

def NotWritten (new : List Ev) (b : Nat) : Prop := ∀ e ∈ new, b ∉ evWrites e

theorem resolve_block {mem : Array Block} {p n b off : Nat} (h : resolve mem p n = .ok (b, off)) : b = ptrBlock p := by
  simp only [resolve] at h
  split at h
  · cases h
  · split at h
    · cases h
    · split at h
      · cases h
      · split at h
        · cases h
        · have := Except.ok.inj h
          exact (congrArg Prod.fst this).symm

theorem getElem?_setBlock_ne (mem : Array Block) (b j : Nat) (x : Array LByte) (h : j ≠ b) : (setBlock mem b x)[j]? = mem[j]? := by
  unfold setBlock
  split
  · rfl
  · rw [Array.getElem?_setIfInBounds]
    have : ¬ b = j := fun e => h e.symm
    simp [this]

theorem size_setBlock' (mem : Array Block) (b : Nat) (x : Array LByte) : (setBlock mem b x).size = mem.size := by
  unfold setBlock; split <;> simp

/-- what `exec_frame` states about an outcome -/
def FrameOk (st : St) : Out → Prop
  | .ok _ _ st' => st'.mem.size = st.mem.size ∧ ∃ new, st'.leak = new ++ st.leak ∧ ∀ b, NotWritten new b → st'.mem[b]? = st.mem[b]?
  | _ => True

theorem frameOk_refl (st : St) (sig : Sig) (env : Env) : FrameOk st (.ok sig env st) :=
  ⟨rfl, [], rfl, fun _ _ => rfl⟩

theorem frameOk_leak (st : St) (sig : Sig) (env : Env) (evs : List Ev) (hw : ∀ e ∈ evs, evWrites e = []) :
    FrameOk st (.ok sig env { st with leak := evs ++ st.leak }) :=
  ⟨rfl, evs, rfl, fun _ _ => rfl⟩

/-- composition: first `st → st1`, then an outcome framed relative to `st1` -/
theorem frameOk_trans {st st1 : St} {o : Out} (h1 : st1.mem.size = st.mem.size)
    (h2 : ∃ new, st1.leak = new ++ st.leak ∧ ∀ b, NotWritten new b → st1.mem[b]? = st.mem[b]?) (h3 : FrameOk st1 o) : FrameOk st o := by
  cases o with
  | timeout => trivial
  | fault _ _ => trivial
  | ok sig env st' =>
    obtain ⟨hs, new2, hl2, hm2⟩ := h3
    obtain ⟨new1, hl1, hm1⟩ := h2
    refine ⟨by rw [hs, h1], new2 ++ new1, by rw [hl2, hl1, List.append_assoc], fun b hb => ?_⟩
    rw [hm2 b (fun e he => hb e (List.mem_append_left _ he)), hm1 b (fun e he => hb e (List.mem_append_right _ he))]

theorem allocLocals_mem (al : List (Nat × Nat)) (env : Env) (mem : Array Block) :
    mem.size ≤ (allocLocals al env mem).2.size ∧ ∀ b, b < mem.size → (allocLocals al env mem).2[b]? = mem[b]? := by
  induction al generalizing env mem with
  | nil => exact ⟨Nat.le_refl _, fun _ _ => rfl⟩
  | cons a rest ih =>
    obtain ⟨x, size⟩ := a
    simp only [allocLocals]
    obtain ⟨h1, h2⟩ := ih (setVar env x (mkPtr mem.size 0, .pub)) (mem.push { bytes := Array.replicate size (0, .undef), base := 0 })
    refine ⟨by rw [Array.size_push] at h1; omega, fun b hb => ?_⟩
    rw [h2 b (by rw [Array.size_push]; omega), Array.getElem?_push]
    have : ¬ b = mem.size := by omega
    simp [this]

/-- a completed callee run, seen from the caller -/
theorem frameOk_leave (dst : Option Nat) (env : Env) (st st0 : St) (o : Out)
    (hsz : st.mem.size ≤ st0.mem.size) (hpre : ∀ b, b < st.mem.size → st0.mem[b]? = st.mem[b]?) (hleak : st0.leak = st.leak)
    (h : FrameOk st0 o) : FrameOk st (leaveFun dst env st.mem.size o) := by
  cases o with
  | timeout => trivial
  | fault _ _ => trivial
  | ok sig env' st' =>
    simp only [leaveFun]
    obtain ⟨hs, new, hl, hm⟩ := h
    cases assignDst dst env sig.retVal with
    | error k => trivial
    | ok env'' =>
      refine ⟨?_, new, by rw [hl, hleak], fun b hb => ?_⟩
      · simp only [Array.size_extract, Nat.sub_zero]; omega
      · by_cases hlt : b < st.mem.size
        · rw [Array.getElem?_extract]
          have : b < min st.mem.size st'.mem.size - 0 := by omega
          simp only [this, if_true, Nat.zero_add]
          rw [hm b hb, hpre b hlt]
        · rw [Array.getElem?_eq_none (by simp only [Array.size_extract]; omega), Array.getElem?_eq_none (by omega)]

theorem deliver_frame (st : St) (buf size : Nat) (r : LVal) (st1 : St) (h : deliver st buf size = .ok (r, st1)) :
    st1.mem.size = st.mem.size ∧ ∃ new, st1.leak = new ++ st.leak ∧ ∀ b, NotWritten new b → st1.mem[b]? = st.mem[b]? := by
  unfold deliver at h
  simp only at h
  split at h
  · have := Except.ok.inj h
    have e2 := congrArg Prod.snd this
    simp only at e2
    subst e2
    exact ⟨rfl, [.ent buf size], rfl, fun _ _ => rfl⟩
  · rename_i hn
    cases hr : resolve st.mem buf 1 with
    | error k => rw [hr] at h; cases h
    | ok bo =>
      obtain ⟨b0, off⟩ := bo
      rw [hr] at h
      simp only at h
      split at h
      · cases h
      · have := Except.ok.inj h
        have e2 := congrArg Prod.snd this
        simp only at e2
        subst e2
        refine ⟨size_setBlock' _ _ _, [.ent buf size], rfl, fun b hb => ?_⟩
        have hnz : ¬ (size = 0 ∨ buf / ptrBase = 0) := by
          intro hc
          rcases hc with hc | hc
          · apply hn; rw [hc]; exact Nat.min_zero _
          · simp only [resolve, hc, if_true] at hr; cases hr
        have hne : b ≠ b0 := by
          intro e
          have := hb (.ent buf size) (List.mem_singleton.mpr rfl)
          simp only [evWrites, hnz, if_false, List.mem_singleton] at this
          exact this (e ▸ resolve_block hr)
        exact getElem?_setBlock_ne _ _ _ _ hne


theorem frameOk_write (st : St) (env : Env) (ev : Ev) (b0 : Nat) (x : Array LByte) (hw : ∀ b, b ∉ evWrites ev → b ≠ b0) :
    FrameOk st (.ok .normal env { st with leak := ev :: st.leak, mem := setBlock st.mem b0 x }) := by
  refine ⟨size_setBlock' _ _ _, [ev], rfl, fun b hb => ?_⟩
  exact getElem?_setBlock_ne _ _ _ _ (hw b (hb ev (List.mem_singleton.mpr rfl)))

/-- **Frame theorem.** -/
theorem exec_frame (prog : Program) (fuel : Nat) : ∀ (s : Stmt) (env : Env) (st : St), FrameOk st (exec prog fuel s env st) := by
  induction fuel with
  | zero => intro s env st; simp only [exec]; trivial
  | succ n ih =>
    intro s env st
    cases s with
    | skip => simp only [exec]; exact frameOk_refl _ _ _
    | brk => simp only [exec]; exact frameOk_refl _ _ _
    | assign x e =>
      simp only [exec]
      cases evalE env e with
      | error k => trivial
      | ok v => exact frameOk_refl _ _ _
    | ret e =>
      cases e with
      | none => simp only [exec]; exact frameOk_refl _ _ _
      | some e =>
        simp only [exec]
        cases evalE env e with
        | error k => trivial
        | ok v => exact frameOk_refl _ _ _
    | seq a b =>
      simp only [exec]
      have ha := ih a env st
      cases hr : exec prog n a env st with
      | timeout => trivial
      | fault _ _ => trivial
      | ok g e1 s1 =>
        rw [hr] at ha
        cases g with
        | normal => exact frameOk_trans ha.1 ha.2 (ih b e1 s1)
        | brk => exact ha
        | ret v => exact ha
    | loop body =>
      simp only [exec]
      have ha := ih body env st
      cases hr : exec prog n body env st with
      | timeout => trivial
      | fault _ _ => trivial
      | ok g e1 s1 =>
        rw [hr] at ha
        cases g with
        | normal => exact frameOk_trans ha.1 ha.2 (ih (.loop body) e1 s1)
        | brk => exact ha
        | ret v => exact ha
    | ite c a b =>
      simp only [exec]
      cases evalE env c with
      | error k => trivial
      | ok vl =>
        obtain ⟨v, l⟩ := vl
        simp only
        split
        · trivial
        · have hst : ({ st with leak := Ev.br (v != 0) :: st.leak } : St).mem.size = st.mem.size ∧
              ∃ new, ({ st with leak := Ev.br (v != 0) :: st.leak } : St).leak = new ++ st.leak ∧
                ∀ b, NotWritten new b → ({ st with leak := Ev.br (v != 0) :: st.leak } : St).mem[b]? = st.mem[b]? :=
            ⟨rfl, [Ev.br (v != 0)], rfl, fun _ _ => rfl⟩
          split
          · exact frameOk_trans hst.1 hst.2 (ih a env _)
          · exact frameOk_trans hst.1 hst.2 (ih b env _)
    | load x t addr =>
      simp only [exec]
      cases evalE env addr with
      | error k => trivial
      | ok vl =>
        obtain ⟨p, l⟩ := vl
        simp only
        split
        · trivial
        · cases resolve st.mem p t.bytes with
          | error k => trivial
          | ok bo =>
            obtain ⟨b0, off⟩ := bo
            simp only
            cases readLE (blockBytes st.mem b0) off t.bytes with
            | none => trivial
            | some v => exact ⟨rfl, [Ev.rd p t.bytes], rfl, fun _ _ => rfl⟩
    | store t addr e =>
      simp only [exec]
      cases evalE env addr with
      | error k => trivial
      | ok vl =>
        obtain ⟨p, l⟩ := vl
        simp only
        split
        · trivial
        · cases evalE env e with
          | error k => trivial
          | ok wl =>
            obtain ⟨w, lw⟩ := wl
            simp only
            cases hr : resolve st.mem p t.bytes with
            | error k => trivial
            | ok bo =>
              obtain ⟨b0, off⟩ := bo
              simp only
              apply frameOk_write
              intro b hb e
              apply hb
              simp only [evWrites, List.mem_singleton]
              rw [e]; exact resolve_block hr
    | call dst f args =>
      simp only [exec]
      cases evalArgs env args with
      | error k => trivial
      | ok vs =>
        simp only
        cases prog[f]? with
        | none => trivial
        | some fd =>
          simp only
          split
          · trivial
          · have hal := allocLocals_mem fd.allocs (vs ++ List.replicate (fd.nvars - fd.nparams) (0, Lab.undef)).toArray st.mem
            exact frameOk_leave dst env st { st with mem := (enterFun fd vs st.mem).2 } _ hal.1 hal.2 rfl (ih fd.body _ _)
    | calli dst fp args =>
      simp only [exec]
      cases evalE env fp with
      | error k => trivial
      | ok vl =>
        obtain ⟨f, l⟩ := vl
        simp only
        split
        · trivial
        · cases evalArgs env args with
          | error k => trivial
          | ok vs =>
            simp only
            have hst0 : ({ st with leak := Ev.icall f :: st.leak } : St).mem.size = st.mem.size ∧
              ∃ new, ({ st with leak := Ev.icall f :: st.leak } : St).leak = new ++ st.leak ∧
                ∀ b, NotWritten new b → ({ st with leak := Ev.icall f :: st.leak } : St).mem[b]? = st.mem[b]? :=
              ⟨rfl, [Ev.icall f], rfl, fun _ _ => rfl⟩
            split
            · split
              · trivial
              · cases vs[1]? with
                | none => trivial
                | some bl =>
                  obtain ⟨buf, lb⟩ := bl
                  simp only
                  cases vs[2]? with
                  | none => trivial
                  | some sl =>
                    obtain ⟨size, ls⟩ := sl
                    simp only
                    split
                    · trivial
                    · cases hd : deliver { st with leak := Ev.icall f :: st.leak } buf size with
                      | error k => trivial
                      | ok r =>
                        obtain ⟨v, st1⟩ := r
                        simp only
                        cases assignDst dst env (some v) with
                        | error k => trivial
                        | ok env' =>
                          have h1 := deliver_frame _ buf size v st1 hd
                          exact frameOk_trans hst0.1 hst0.2 ⟨h1.1, h1.2⟩
            · split
              · trivial
              · cases prog[f - fnBase]? with
                | none => trivial
                | some fd =>
                  simp only
                  split
                  · trivial
                  · have hal := allocLocals_mem fd.allocs (vs ++ List.replicate (fd.nvars - fd.nparams) (0, Lab.undef)).toArray st.mem
                    apply frameOk_trans hst0.1 hst0.2
                    exact frameOk_leave dst env { st with leak := Ev.icall f :: st.leak }
                      { st with leak := Ev.icall f :: st.leak, mem := (enterFun fd vs st.mem).2 } _ hal.1 hal.2 rfl (ih fd.body _ _)
    | memcpy d sr cnt =>
      simp only [exec]
      cases evalE env d with
      | error k => trivial
      | ok dl =>
        obtain ⟨pd, ld⟩ := dl
        simp only
        cases evalE env sr with
        | error k => trivial
        | ok sl =>
          obtain ⟨ps, ls⟩ := sl
          simp only
          cases evalE env cnt with
          | error k => trivial
          | ok nl =>
            obtain ⟨vn, ln⟩ := nl
            simp only
            split
            · trivial
            · split
              · exact ⟨rfl, [Ev.cp pd ps vn], rfl, fun _ _ => rfl⟩
              · rename_i hvn
                cases resolve st.mem ps 1 with
                | error k => trivial
                | ok bo =>
                  obtain ⟨bs, offs⟩ := bo
                  simp only
                  split
                  · trivial
                  · cases hr : resolve st.mem pd 1 with
                    | error k => trivial
                    | ok bo2 =>
                      obtain ⟨bd, offd⟩ := bo2
                      simp only
                      split
                      · trivial
                      · apply frameOk_write
                        intro b hb e
                        apply hb
                        simp only [evWrites, hvn, if_false, List.mem_singleton]
                        rw [e]; exact resolve_block hr
    | memset d v cnt =>
      simp only [exec]
      cases evalE env d with
      | error k => trivial
      | ok dl =>
        obtain ⟨pd, ld⟩ := dl
        simp only
        cases evalE env v with
        | error k => trivial
        | ok vl =>
          obtain ⟨vv, lv⟩ := vl
          simp only
          cases evalE env cnt with
          | error k => trivial
          | ok nl =>
            obtain ⟨vn, ln⟩ := nl
            simp only
            split
            · trivial
            · split
              · exact ⟨rfl, [Ev.set pd vn], rfl, fun _ _ => rfl⟩
              · rename_i hvn
                cases hr : resolve st.mem pd 1 with
                | error k => trivial
                | ok bo2 =>
                  obtain ⟨bd, offd⟩ := bo2
                  simp only
                  split
                  · trivial
                  · apply frameOk_write
                    intro b hb e
                    apply hb
                    simp only [evWrites, hvn, if_false, List.mem_singleton]
                    rw [e]; exact resolve_block hr
    | entropy dst buf =>
      simp only [exec]
      cases evalE env buf with
      | error k => trivial
      | ok vl =>
        obtain ⟨p, l⟩ := vl
        simp only
        split
        · trivial
        · cases hd : deliver st p 32 with
          | error k => trivial
          | ok r =>
            obtain ⟨v, st1⟩ := r
            simp only
            cases assignDst dst env (some v) with
            | error k => trivial
            | ok env' =>
              have h1 := deliver_frame _ p 32 v st1 hd
              exact ⟨h1.1, h1.2⟩

end TJ.MiniC
