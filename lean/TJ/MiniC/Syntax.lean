/-
  TJ.MiniC.Syntax — the deep-embedded C subset that tools/c2lean.py regenerates from /repo's C sources
  (clang typed AST, macros expanded, every implicit conversion explicit).

  The translator normalises so that
    * expressions are pure (no loads, no calls, no side effects): every memory read is a `load`
      statement into a fresh temporary, `x++`, `*p++`, compound assignment are expanded;
    * every loop is `loop body` with explicit `break` (while/for/do-while are derived forms);
    * arrays, structs and address-taken scalars live in memory blocks allocated at function entry;
      all other locals are numbered variables;
    * a pointer is the integer `(block+1) * 2^32 + offset`, NULL is 0, a function pointer is the
      integer `fnBase + index` (so that pointers can be stored in memory as 8 little-endian bytes).
-/
namespace TJ.MiniC

/-- integer types of the subset (LP64): pointers and `size_t` are `u64`, `int` is `i32` -/
inductive Ty | u8 | u16 | u32 | u64 | i8 | i16 | i32 | i64
  deriving DecidableEq, Repr, Inhabited

def Ty.bits : Ty → Nat
  | .u8 => 8 | .u16 => 16 | .u32 => 32 | .u64 => 64 | .i8 => 8 | .i16 => 16 | .i32 => 32 | .i64 => 64
/-- `2 ^ bits`, as literals (the interpreter evaluates this at every arithmetic node) -/
def Ty.modulus : Ty → Nat
  | .u8 => 256 | .u16 => 65536 | .u32 => 4294967296 | .u64 => 18446744073709551616
  | .i8 => 256 | .i16 => 65536 | .i32 => 4294967296 | .i64 => 18446744073709551616
/-- `2 ^ (bits-1)` -/
def Ty.half : Ty → Nat
  | .u8 => 128 | .u16 => 32768 | .u32 => 2147483648 | .u64 => 9223372036854775808
  | .i8 => 128 | .i16 => 32768 | .i32 => 2147483648 | .i64 => 9223372036854775808
def Ty.bytes (t : Ty) : Nat := t.bits / 8
def Ty.signed : Ty → Bool
  | .i8 => true | .i16 => true | .i32 => true | .i64 => true | _ => false

inductive BinOp
  | add | sub | mul | div | rem | band | bor | bxor | shl | shr
  | eq | ne | lt | le | gt | ge
  deriving DecidableEq, Repr, Inhabited

inductive UnOp | bnot | neg | lnot
  deriving DecidableEq, Repr, Inhabited

/-- pure expressions; `t` is the type the operation is performed in (operands already converted) -/
inductive Expr
  | lit (n : Nat)
  | var (x : Nat)
  | bin (op : BinOp) (t : Ty) (a b : Expr)
  | un (op : UnOp) (t : Ty) (a : Expr)
  /-- integer conversion `from → to` -/
  | cast (to from_ : Ty) (a : Expr)
  deriving Repr, Inhabited

inductive Stmt
  | skip
  | assign (x : Nat) (e : Expr)
  /-- `x = *(t*)addr` -/
  | load (x : Nat) (t : Ty) (addr : Expr)
  /-- `*(t*)addr = e` -/
  | store (t : Ty) (addr : Expr) (e : Expr)
  | seq (a b : Stmt)
  | ite (c : Expr) (a b : Stmt)
  | loop (body : Stmt)
  | brk
  | ret (e : Option Expr)
  /-- direct call of program function `f` -/
  | call (dst : Option Nat) (f : Nat) (args : List Expr)
  /-- call through a function pointer value -/
  | calli (dst : Option Nat) (fp : Expr) (args : List Expr)
  | memcpy (d s n : Expr)
  | memset (d v n : Expr)
  /-- the system entropy source `tinyjambu_trng_generate(buf)`: one scripted delivery -/
  | entropy (dst : Option Nat) (buf : Expr)
  deriving Repr, Inhabited

structure FunDecl where
  name : String
  nparams : Nat
  /-- total number of numbered variables (parameters first) -/
  nvars : Nat
  /-- memory-resident locals: (variable that receives the pointer, size in bytes); an address-taken
      parameter is copied into its block by a `store` the translator puts at the start of the body -/
  allocs : List (Nat × Nat)
  body : Stmt
  deriving Repr, Inhabited

abbrev Program := List FunDecl

end TJ.MiniC
