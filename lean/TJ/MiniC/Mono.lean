/-
  TJ.MiniC.Mono — labels only ever stop an execution: lowering labels (secret → public) of inputs never changes values.

  `exec_lower`: if a statement completes from environment/state `(e2, s2)`, and `(e1, s1)` holds the same values with labels that are
  equal or lower (`pub ≤ sec`; `undef` only matches `undef`), then it completes from `(e1, s1)` too, with the same signal, the same trace,
  the same values everywhere and labels that are again equal or lower.
  Consequence: a functional theorem proved for the canonical labelling (everything secret except lengths, counters and positions) holds
  for every labelling below it — in particular for objects just initialised from public constants.
-/
import TJ.MiniC.NI
namespace TJ.MiniC

def Lab.le : Lab → Lab → Prop
  | .undef, .undef => True
  | .pub, .pub => True
  | .pub, .sec => True
  | .sec, .sec => True
  | _, _ => False

theorem Lab.le_refl (l : Lab) : Lab.le l l := by cases l <;> trivial

theorem Lab.le_pub {a : Lab} (h : Lab.le a .pub) : a = .pub := by cases a <;> first | rfl | exact h.elim

theorem Lab.le_undef_iff {a b : Lab} (h : Lab.le a b) : (a = .undef) = (b = .undef) := by
  cases a <;> cases b <;> first | rfl | exact h.elim | simp

theorem Lab.le_join {a b c d : Lab} (h1 : Lab.le a c) (h2 : Lab.le b d) (hc : c ≠ .undef) (hd : d ≠ .undef) : Lab.le (a.join b) (c.join d) := by
  cases a <;> cases b <;> cases c <;> cases d <;> first | trivial | exact h1.elim | exact h2.elim | exact absurd rfl hc | exact absurd rfl hd

/-- same value, lower-or-equal label (left is the lower side) -/
def VLe {α} (a b : α × Lab) : Prop := a.1 = b.1 ∧ Lab.le a.2 b.2

theorem VLe.refl {α} (a : α × Lab) : VLe a a := ⟨rfl, Lab.le_refl _⟩

abbrev EnvLe (e1 e2 : Env) : Prop := ARel VLe e1 e2
abbrev BytesLe (b1 b2 : Array LByte) : Prop := ARel VLe b1 b2
def BlockLe (b1 b2 : Block) : Prop := b1.base = b2.base ∧ BytesLe b1.bytes b2.bytes
abbrev MemLe (m1 m2 : Array Block) : Prop := ARel BlockLe m1 m2

structure StLe (s1 s2 : St) : Prop where
  mem : MemLe s1.mem s2.mem
  ent : s1.ent = s2.ent
  leak : s1.leak = s2.leak

def SigLe : Sig → Sig → Prop
  | .normal, .normal => True
  | .brk, .brk => True
  | .ret v1, .ret v2 => ORel VLe v1 v2
  | _, _ => False

/-- the lower run completes whenever the higher one does -/
def OutLe (lo hi : Out) : Prop :=
  match hi with
  | .ok g2 e2 s2 => ∃ g1 e1 s1, lo = .ok g1 e1 s1 ∧ SigLe g1 g2 ∧ EnvLe e1 e2 ∧ StLe s1 s2
  | _ => True

def ELe {α} (R : α → α → Prop) (lo hi : Except Fault α) : Prop :=
  match hi with
  | .ok b => ∃ a, lo = .ok a ∧ R a b
  | .error _ => True

/-! ### expressions -/

theorem evalE_le {e1 e2 : Env} (h : EnvLe e1 e2) (x : Expr) : ELe VLe (evalE e1 x) (evalE e2 x) := by
  induction x with
  | lit n => exact ⟨_, rfl, VLe.refl _⟩
  | var x =>
    simp only [evalE]
    have hx := h x
    cases h2 : e2[x]? with
    | none => trivial
    | some b =>
      cases h1 : e1[x]? with
      | none => rw [h1, h2] at hx; exact hx.elim
      | some a =>
        rw [h1, h2] at hx
        obtain ⟨va, la⟩ := a; obtain ⟨vb, lb⟩ := b
        simp only
        by_cases hu : lb = .undef
        · simp only [hu, if_true]; trivial
        · have hu1 : ¬ la = .undef := by rw [Lab.le_undef_iff hx.2]; exact hu
          simp only [hu, hu1, if_false]
          exact ⟨_, rfl, hx⟩
  | bin op t a b iha ihb =>
    simp only [evalE]
    cases ha2 : evalE e2 a with
    | error k => trivial
    | ok v2 =>
      rw [ha2] at iha
      obtain ⟨v1, ha1, hva⟩ := iha
      rw [ha1]
      obtain ⟨va1, la1⟩ := v1; obtain ⟨va2, la2⟩ := v2
      simp only
      cases hb2 : evalE e2 b with
      | error k => trivial
      | ok w2 =>
        rw [hb2] at ihb
        obtain ⟨w1, hb1, hvb⟩ := ihb
        rw [hb1]
        obtain ⟨vb1, lb1⟩ := w1; obtain ⟨vb2, lb2⟩ := w2
        simp only
        have eva : va1 = va2 := hva.1
        have evb : vb1 = vb2 := hvb.1
        subst eva evb
        by_cases ht : ((op.needsPub2 && lb2 ≠ .pub) || (op.needsPub1 && la2 ≠ .pub)) = true
        · simp only [ht, if_true]; trivial
        · have ht1 : ¬ ((op.needsPub2 && lb1 ≠ .pub) || (op.needsPub1 && la1 ≠ .pub)) = true := by
            intro hc
            apply ht
            simp only [Bool.or_eq_true, Bool.and_eq_true, decide_eq_true_eq] at hc ⊢
            rcases hc with ⟨h1, h2⟩ | ⟨h1, h2⟩
            · left; refine ⟨h1, fun hp => h2 ?_⟩; rw [hp] at hvb; exact Lab.le_pub hvb.2
            · right; refine ⟨h1, fun hp => h2 ?_⟩; rw [hp] at hva; exact Lab.le_pub hva.2
          simp only [ht, ht1, if_false]
          cases hv : binVal op t va1 vb1 with
          | none => trivial
          | some r =>
            -- in the higher run the operands were defined (they were read from variables or computed), so their labels are not `undef`
            refine ⟨_, rfl, rfl, ?_⟩
            simp only
            cases la1 <;> cases lb1 <;> cases la2 <;> cases lb2 <;> first | trivial | exact hva.2.elim | exact hvb.2.elim
  | un op t a iha =>
    simp only [evalE]
    cases ha2 : evalE e2 a with
    | error k => trivial
    | ok v2 =>
      rw [ha2] at iha
      obtain ⟨v1, ha1, hva⟩ := iha
      rw [ha1]
      obtain ⟨va1, la1⟩ := v1; obtain ⟨va2, la2⟩ := v2
      have eva : va1 = va2 := hva.1
      subst eva
      exact ⟨_, rfl, rfl, hva.2⟩
  | cast to fr a iha =>
    simp only [evalE]
    cases ha2 : evalE e2 a with
    | error k => trivial
    | ok v2 =>
      rw [ha2] at iha
      obtain ⟨v1, ha1, hva⟩ := iha
      rw [ha1]
      obtain ⟨va1, la1⟩ := v1; obtain ⟨va2, la2⟩ := v2
      have eva : va1 = va2 := hva.1
      subst eva
      exact ⟨_, rfl, rfl, hva.2⟩

theorem evalArgs_le {e1 e2 : Env} (h : EnvLe e1 e2) (xs : List Expr) : ELe (L2 VLe) (evalArgs e1 xs) (evalArgs e2 xs) := by
  induction xs with
  | nil => exact ⟨_, rfl, L2.nil⟩
  | cons x xs ih =>
    simp only [evalArgs]
    have hx := evalE_le h x
    cases h2 : evalE e2 x with
    | error k => trivial
    | ok v2 =>
      rw [h2] at hx
      obtain ⟨v1, h1, hv⟩ := hx
      rw [h1]
      simp only
      cases h4 : evalArgs e2 xs with
      | error k => trivial
      | ok w2 =>
        rw [h4] at ih
        obtain ⟨w1, h3, hw⟩ := ih
        rw [h3]
        exact ⟨_, rfl, L2.cons hv hw⟩

/-! ### memory -/

theorem blockBytes_le {m1 m2 : Array Block} (h : MemLe m1 m2) (b : Nat) : BytesLe (blockBytes m1 b) (blockBytes m2 b) := by
  unfold blockBytes
  have hb := h b
  cases h1 : m1[b]? with
  | none => cases h2 : m2[b]? with
    | none => intro i; simp [ORel]
    | some y => rw [h1, h2] at hb; exact hb.elim
  | some x => cases h2 : m2[b]? with
    | none => rw [h1, h2] at hb; exact hb.elim
    | some y => rw [h1, h2] at hb; exact hb.2

theorem resolve_le {m1 m2 : Array Block} (h : MemLe m1 m2) (p size : Nat) : resolve m1 p size = resolve m2 p size := by
  simp only [resolve]
  split
  · rfl
  · have hb := h (p / ptrBase - 1)
    cases h1 : m1[p / ptrBase - 1]? with
    | none => cases h2 : m2[p / ptrBase - 1]? with
      | none => rfl
      | some y => rw [h1, h2] at hb; exact hb.elim
    | some x => cases h2 : m2[p / ptrBase - 1]? with
      | none => rw [h1, h2] at hb; exact hb.elim
      | some y =>
        rw [h1, h2] at hb
        have hbase : x.base = y.base := hb.1
        have hsize : x.bytes.size = y.bytes.size := hb.2.size_eq
        simp only [hbase, hsize]

theorem setBlock_le {m1 m2 : Array Block} (h : MemLe m1 m2) (b : Nat) {x y : Array LByte} (hxy : BytesLe x y) :
    MemLe (setBlock m1 b x) (setBlock m2 b y) := by
  unfold setBlock
  have hb := h b
  cases h1 : m1[b]? with
  | none => cases h2 : m2[b]? with
    | none => exact h
    | some v => rw [h1, h2] at hb; exact hb.elim
  | some u => cases h2 : m2[b]? with
    | none => rw [h1, h2] at hb; exact hb.elim
    | some v =>
      rw [h1, h2] at hb
      exact ARel.set h b ⟨hb.1, hxy⟩

theorem readLE_le {b1 b2 : Array LByte} (h : BytesLe b1 b2) (off n : Nat) :
    match readLE b2 off n with
    | some v2 => ∃ v1, readLE b1 off n = some v1 ∧ VLe v1 v2
    | none => True := by
  induction n generalizing off with
  | zero => exact ⟨_, rfl, VLe.refl _⟩
  | succ n ih =>
    simp only [readLE]
    have ho := h off
    cases h2 : b2[off]? with
    | none => trivial
    | some y =>
      cases h1 : b1[off]? with
      | none => rw [h1, h2] at ho; exact ho.elim
      | some x =>
        rw [h1, h2] at ho
        obtain ⟨vx, lx⟩ := x; obtain ⟨vy, ly⟩ := y
        simp only
        by_cases hu : ly = .undef
        · simp only [hu, if_true]
        · have hu1 : ¬ lx = .undef := by rw [Lab.le_undef_iff ho.2]; exact hu
          simp only [hu, hu1, if_false]
          have ih' := ih (off + 1)
          cases h4 : readLE b2 (off + 1) n with
          | none => trivial
          | some w =>
            rw [h4] at ih'
            obtain ⟨u, h3, huw⟩ := ih'
            rw [h3]
            obtain ⟨vu, lu⟩ := u; obtain ⟨vw, lw⟩ := w
            refine ⟨_, rfl, ?_, ?_⟩
            · have e1 : vx = vy := ho.1
              have e2 : vu = vw := huw.1
              simp only at e1 e2 ⊢
              rw [e1, e2]
            · have := ho.2; have := huw.2
              simp only at *
              cases lx <;> cases ly <;> cases lu <;> cases lw <;> first | trivial | exact ho.2.elim | exact huw.2.elim | exact absurd rfl hu

theorem writeLE_le {b1 b2 : Array LByte} (h : BytesLe b1 b2) (off v : Nat) {l1 l2 : Lab} (hl : Lab.le l1 l2) (n : Nat) :
    BytesLe (writeLE b1 off v l1 n) (writeLE b2 off v l2 n) := by
  induction n generalizing b1 b2 off v with
  | zero => exact h
  | succ n ih =>
    simp only [writeLE]
    exact ih (ARel.set h off (show VLe ((v % 256).toUInt8, l1) ((v % 256).toUInt8, l2) from ⟨rfl, hl⟩)) _ _

theorem writeBytes_le {b1 b2 : Array LByte} (h : BytesLe b1 b2) (off : Nat) {x y : List LByte} (hxy : L2 VLe x y) :
    BytesLe (writeBytes b1 off x) (writeBytes b2 off y) := by
  induction hxy generalizing b1 b2 off with
  | nil => exact h
  | cons hab _ ih => simp only [writeBytes]; exact ih (ARel.set h off hab) (off + 1)

theorem sliceBytes_le {b1 b2 : Array LByte} (h : BytesLe b1 b2) (off n : Nat) :
    L2 VLe (sliceBytes b1 off n) (sliceBytes b2 off n) := by
  induction n generalizing off with
  | zero => exact .nil
  | succ n ih =>
    simp only [sliceBytes]
    have ho := h off
    cases h1 : b1[off]? with
    | none => cases h2 : b2[off]? with
      | none => exact .nil
      | some y => rw [h1, h2] at ho; exact ho.elim
    | some x => cases h2 : b2[off]? with
      | none => rw [h1, h2] at ho; exact ho.elim
      | some y => rw [h1, h2] at ho; exact .cons ho (ih (off + 1))

theorem allocLocals_le (al : List (Nat × Nat)) {e1 e2 : Env} {m1 m2 : Array Block} (he : EnvLe e1 e2) (hm : MemLe m1 m2) :
    EnvLe (allocLocals al e1 m1).1 (allocLocals al e2 m2).1 ∧ MemLe (allocLocals al e1 m1).2 (allocLocals al e2 m2).2 := by
  induction al generalizing e1 e2 m1 m2 with
  | nil => exact ⟨he, hm⟩
  | cons a rest ih =>
    obtain ⟨x, size⟩ := a
    simp only [allocLocals]
    apply ih
    · rw [hm.size_eq]; exact ARel.set he x (VLe.refl _)
    · exact ARel.push hm ⟨rfl, ARel.replicate size (VLe.refl _)⟩

theorem assignDst_le (dst : Option Nat) {e1 e2 : Env} (he : EnvLe e1 e2) {v1 v2 : Option LVal} (hv : ORel VLe v1 v2) :
    ELe EnvLe (assignDst dst e1 v1) (assignDst dst e2 v2) := by
  unfold assignDst
  cases dst with
  | none => exact ⟨_, rfl, he⟩
  | some x =>
    cases v2 with
    | none => trivial
    | some b =>
      cases v1 with
      | none => exact hv.elim
      | some a => exact ⟨_, rfl, ARel.set he x hv⟩

theorem L2.refl_of {α} {R : α → α → Prop} (hr : ∀ a, R a a) : ∀ (x : List α), L2 R x x
  | [] => .nil
  | a :: x => .cons (hr a) (L2.refl_of hr x)

theorem deliver_le {s1 s2 : St} (h : StLe s1 s2) (buf size : Nat) :
    ELe (fun r1 r2 => VLe r1.1 r2.1 ∧ StLe r1.2 r2.2) (deliver s1 buf size) (deliver s2 buf size) := by
  unfold deliver
  simp only [h.ent, h.leak]
  split
  · exact ⟨_, rfl, VLe.refl _, ⟨h.mem, rfl, rfl⟩⟩
  · rw [resolve_le h.mem]
    cases hr : resolve s2.mem buf 1 with
    | error k => trivial
    | ok bo =>
      obtain ⟨b, off⟩ := bo
      simp only
      rw [(blockBytes_le h.mem b).size_eq]
      split
      · trivial
      · refine ⟨_, rfl, VLe.refl _, ⟨?_, rfl, rfl⟩⟩
        apply setBlock_le h.mem
        exact writeBytes_le (blockBytes_le h.mem b) _ (L2.refl_of VLe.refl _)

theorem enterFun_le (fd : FunDecl) {v1 v2 : List LVal} (hv : L2 VLe v1 v2) {m1 m2 : Array Block} (hm : MemLe m1 m2) :
    EnvLe (enterFun fd v1 m1).1 (enterFun fd v2 m2).1 ∧ MemLe (enterFun fd v1 m1).2 (enterFun fd v2 m2).2 := by
  unfold enterFun
  exact allocLocals_le _ (L2.toArray (L2.append hv (L2.replicate _ (VLe.refl _)))) hm

theorem leaveFun_le (dst : Option Nat) {e1 e2 : Env} (he : EnvLe e1 e2) (n : Nat) {r1 r2 : Out} (hr : OutLe r1 r2) :
    OutLe (leaveFun dst e1 n r1) (leaveFun dst e2 n r2) := by
  cases r2 with
  | timeout => trivial
  | fault _ _ => trivial
  | ok g2 x2 t2 =>
    obtain ⟨g1, x1, t1, h1, hg, _, ht⟩ := hr
    subst h1
    simp only [leaveFun]
    have hrv : ORel VLe g1.retVal g2.retVal := by
      cases g1 <;> cases g2 <;> first | exact hg | exact hg.elim | trivial
    have ha := assignDst_le dst he hrv
    cases h2 : assignDst dst e2 g2.retVal with
    | error k => trivial
    | ok b =>
      rw [h2] at ha
      obtain ⟨a, h1, hab⟩ := ha
      rw [h1]
      exact ⟨_, _, _, rfl, trivial, hab, ⟨ARel.extract0 ht.mem n, ht.ent, ht.leak⟩⟩

/-! ### statements -/

theorem outLe_ok {g : Sig} {e1 e2 : Env} {s1 s2 : St} (hg : SigLe g g) (he : EnvLe e1 e2) (hs : StLe s1 s2) :
    OutLe (.ok g e1 s1) (.ok g e2 s2) := ⟨g, e1, s1, rfl, hg, he, hs⟩

/-- **Lowering labels preserves completed executions and all values.** -/
theorem exec_lower (prog : Program) (fuel : Nat) : ∀ (s : Stmt) (e1 e2 : Env) (s1 s2 : St),
    EnvLe e1 e2 → StLe s1 s2 → OutLe (exec prog fuel s e1 s1) (exec prog fuel s e2 s2) := by
  induction fuel with
  | zero => intro s e1 e2 s1 s2 _ _; simp only [exec]; trivial
  | succ n ih =>
    intro s e1 e2 s1 s2 he hs
    cases s with
    | skip => simp only [exec]; exact outLe_ok trivial he hs
    | brk => simp only [exec]; exact outLe_ok trivial he hs
    | assign x e =>
      simp only [exec]
      have hx := evalE_le he e
      cases h2 : evalE e2 e with
      | error k => trivial
      | ok b =>
        rw [h2] at hx
        obtain ⟨a, h1, hab⟩ := hx
        rw [h1]
        exact outLe_ok trivial (ARel.set he x hab) hs
    | ret e =>
      cases e with
      | none => simp only [exec]; exact ⟨_, _, _, rfl, trivial, he, hs⟩
      | some e =>
        simp only [exec]
        have hx := evalE_le he e
        cases h2 : evalE e2 e with
        | error k => trivial
        | ok b =>
          rw [h2] at hx
          obtain ⟨a, h1, hab⟩ := hx
          rw [h1]
          exact ⟨_, _, _, rfl, hab, he, hs⟩
    | seq a b =>
      simp only [exec]
      have ha := ih a e1 e2 s1 s2 he hs
      cases hr2 : exec prog n a e2 s2 with
      | timeout => trivial
      | fault _ _ => trivial
      | ok g2 x2 t2 =>
        rw [hr2] at ha
        obtain ⟨g1, x1, t1, hr1, hg, hx, ht⟩ := ha
        rw [hr1]
        cases g1 <;> cases g2 <;> first | exact hg.elim | exact ih b _ _ _ _ hx ht | exact ⟨_, _, _, rfl, hg, hx, ht⟩
    | loop body =>
      simp only [exec]
      have ha := ih body e1 e2 s1 s2 he hs
      cases hr2 : exec prog n body e2 s2 with
      | timeout => trivial
      | fault _ _ => trivial
      | ok g2 x2 t2 =>
        rw [hr2] at ha
        obtain ⟨g1, x1, t1, hr1, hg, hx, ht⟩ := ha
        rw [hr1]
        cases g1 <;> cases g2 <;>
          first | exact hg.elim | exact ih (.loop body) _ _ _ _ hx ht | exact ⟨_, _, _, rfl, trivial, hx, ht⟩ | exact ⟨_, _, _, rfl, hg, hx, ht⟩
    | ite c a b =>
      simp only [exec]
      have hx := evalE_le he c
      cases h2 : evalE e2 c with
      | error k => trivial
      | ok vl2 =>
        rw [h2] at hx
        obtain ⟨vl1, h1, hab⟩ := hx
        rw [h1]
        obtain ⟨v1, l1⟩ := vl1; obtain ⟨v2, l2⟩ := vl2
        have ev : v1 = v2 := hab.1
        subst ev
        simp only
        by_cases hp : l2 = Lab.pub
        · have hp1 : l1 = Lab.pub := by rw [hp] at hab; exact Lab.le_pub hab.2
          simp only [hp, hp1, ne_eq, not_true_eq_false, if_false]
          have hs' : StLe { s1 with leak := Ev.br (v1 != 0) :: s1.leak } { s2 with leak := Ev.br (v1 != 0) :: s2.leak } :=
            ⟨hs.mem, hs.ent, by simp [hs.leak]⟩
          split
          · exact ih a _ _ _ _ he hs'
          · exact ih b _ _ _ _ he hs'
        · simp only [ne_eq, hp, not_false_eq_true, if_true]; trivial
    | load x t addr =>
      simp only [exec]
      have hx := evalE_le he addr
      cases h2 : evalE e2 addr with
      | error k => trivial
      | ok vl2 =>
        rw [h2] at hx
        obtain ⟨vl1, h1, hab⟩ := hx
        rw [h1]
        obtain ⟨p1, l1⟩ := vl1; obtain ⟨p2, l2⟩ := vl2
        have ev : p1 = p2 := hab.1
        subst ev
        simp only
        by_cases hp : l2 = Lab.pub
        · have hp1 : l1 = Lab.pub := by rw [hp] at hab; exact Lab.le_pub hab.2
          simp only [hp, hp1, ne_eq, not_true_eq_false, if_false]
          rw [resolve_le hs.mem, hs.leak]
          cases hr : resolve s2.mem p1 t.bytes with
          | error k => trivial
          | ok bo =>
            obtain ⟨b, off⟩ := bo
            simp only
            have hrd := readLE_le (blockBytes_le hs.mem b) off t.bytes
            cases h4 : readLE (blockBytes s2.mem b) off t.bytes with
            | none => trivial
            | some c =>
              rw [h4] at hrd
              obtain ⟨a, h3, hac⟩ := hrd
              rw [h3]
              exact outLe_ok trivial (ARel.set he x hac) ⟨hs.mem, hs.ent, rfl⟩
        · simp only [ne_eq, hp, not_false_eq_true, if_true]; trivial
    | store t addr e =>
      simp only [exec]
      have hx := evalE_le he addr
      cases h2 : evalE e2 addr with
      | error k => trivial
      | ok vl2 =>
        rw [h2] at hx
        obtain ⟨vl1, h1, hab⟩ := hx
        rw [h1]
        obtain ⟨p1, l1⟩ := vl1; obtain ⟨p2, l2⟩ := vl2
        have ev : p1 = p2 := hab.1
        subst ev
        simp only
        by_cases hp : l2 = Lab.pub
        · have hp1 : l1 = Lab.pub := by rw [hp] at hab; exact Lab.le_pub hab.2
          simp only [hp, hp1, ne_eq, not_true_eq_false, if_false]
          have hy := evalE_le he e
          cases h4 : evalE e2 e with
          | error k => trivial
          | ok wl2 =>
            rw [h4] at hy
            obtain ⟨wl1, h3, hw⟩ := hy
            rw [h3]
            obtain ⟨w1, m1⟩ := wl1; obtain ⟨w2, m2⟩ := wl2
            have ew : w1 = w2 := hw.1
            subst ew
            simp only
            rw [resolve_le hs.mem, hs.leak]
            cases hr : resolve s2.mem p1 t.bytes with
            | error k => trivial
            | ok bo =>
              obtain ⟨b, off⟩ := bo
              simp only
              exact outLe_ok trivial he ⟨setBlock_le hs.mem b (writeLE_le (blockBytes_le hs.mem b) off w1 hw.2 t.bytes), hs.ent, rfl⟩
        · simp only [ne_eq, hp, not_false_eq_true, if_true]; trivial
    | call dst f args =>
      simp only [exec]
      have hx := evalArgs_le he args
      cases h2 : evalArgs e2 args with
      | error k => trivial
      | ok v2 =>
        rw [h2] at hx
        obtain ⟨v1, h1, hv⟩ := hx
        rw [h1]
        simp only
        cases prog[f]? with
        | none => trivial
        | some fd =>
          simp only [hv.length_eq]
          split
          · trivial
          · rw [hs.mem.size_eq]
            apply leaveFun_le dst he
            have hen := enterFun_le fd hv hs.mem
            exact ih fd.body _ _ _ _ hen.1 ⟨hen.2, hs.ent, hs.leak⟩
    | calli dst fp args =>
      simp only [exec]
      have hx := evalE_le he fp
      cases h2 : evalE e2 fp with
      | error k => trivial
      | ok vl2 =>
        rw [h2] at hx
        obtain ⟨vl1, h1, hab⟩ := hx
        rw [h1]
        obtain ⟨f1, l1⟩ := vl1; obtain ⟨f2, l2⟩ := vl2
        have ev : f1 = f2 := hab.1
        subst ev
        simp only
        by_cases hp : l2 = Lab.pub
        · have hp1 : l1 = Lab.pub := by rw [hp] at hab; exact Lab.le_pub hab.2
          simp only [hp, hp1, ne_eq, not_true_eq_false, if_false]
          have hy := evalArgs_le he args
          cases h4 : evalArgs e2 args with
          | error k => trivial
          | ok v2 =>
            rw [h4] at hy
            obtain ⟨v1, h3, hv⟩ := hy
            rw [h3]
            simp only
            have hs0 : StLe { s1 with leak := Ev.icall f1 :: s1.leak } { s2 with leak := Ev.icall f1 :: s2.leak } :=
              ⟨hs.mem, hs.ent, by simp [hs.leak]⟩
            split
            · simp only [hv.length_eq]
              split
              · trivial
              · have hg1 := hv.getElem? 1
                cases h6 : v2[1]? with
                | none => trivial
                | some bl2 =>
                  cases h5 : v1[1]? with
                  | none => rw [h5, h6] at hg1; exact hg1.elim
                  | some bl1 =>
                    rw [h5, h6] at hg1
                    obtain ⟨buf1, lb1⟩ := bl1; obtain ⟨buf2, lb2⟩ := bl2
                    have eb : buf1 = buf2 := hg1.1
                    subst eb
                    simp only
                    have hg2 := hv.getElem? 2
                    cases h8 : v2[2]? with
                    | none => trivial
                    | some sl2 =>
                      cases h7 : v1[2]? with
                      | none => rw [h7, h8] at hg2; exact hg2.elim
                      | some sl1 =>
                        rw [h7, h8] at hg2
                        obtain ⟨sz1, ls1⟩ := sl1; obtain ⟨sz2, ls2⟩ := sl2
                        have es : sz1 = sz2 := hg2.1
                        subst es
                        simp only
                        by_cases hq : (lb2 ≠ Lab.pub || ls2 ≠ Lab.pub) = true
                        · simp only [hq, if_true]; trivial
                        · have hq2 : lb2 = Lab.pub ∧ ls2 = Lab.pub := by
                            cases lb2 <;> cases ls2 <;> simp at hq ⊢
                          have hq1 : lb1 = Lab.pub ∧ ls1 = Lab.pub := by
                            constructor
                            · have := hg1.2; simp only [hq2.1] at this; exact Lab.le_pub this
                            · have := hg2.2; simp only [hq2.2] at this; exact Lab.le_pub this
                          simp only [hq2.1, hq2.2, hq1.1, hq1.2, ne_eq, not_true_eq_false, decide_false, Bool.or_self, Bool.false_eq_true, if_false]
                          have hd := deliver_le hs0 buf1 sz1
                          cases h10 : deliver { s2 with leak := Ev.icall f1 :: s2.leak } buf1 sz1 with
                          | error k => trivial
                          | ok r2 =>
                            rw [h10] at hd
                            obtain ⟨r1, h9, hr, ht⟩ := hd
                            rw [h9]
                            simp only
                            have ha := assignDst_le dst he (v1 := some r1.1) (v2 := some r2.1) hr
                            cases h12 : assignDst dst e2 (some r2.1) with
                            | error k => trivial
                            | ok b =>
                              rw [h12] at ha
                              obtain ⟨a, h11, hab'⟩ := ha
                              rw [h11]
                              exact ⟨_, _, _, rfl, trivial, hab', ht⟩
            · split
              · trivial
              · cases prog[f1 - fnBase]? with
                | none => trivial
                | some fd =>
                  simp only [hv.length_eq]
                  split
                  · trivial
                  · rw [hs.mem.size_eq]
                    apply leaveFun_le dst he
                    have hen := enterFun_le fd hv hs.mem
                    exact ih fd.body _ _ _ _ hen.1 ⟨hen.2, hs.ent, by simp [hs.leak]⟩
        · simp only [ne_eq, hp, not_false_eq_true, if_true]; trivial
    | memcpy d sr cnt =>
      simp only [exec]
      have hx := evalE_le he d
      cases h2 : evalE e2 d with
      | error k => trivial
      | ok dl2 =>
        rw [h2] at hx
        obtain ⟨dl1, h1, hd⟩ := hx
        rw [h1]
        obtain ⟨pd1, ld1⟩ := dl1; obtain ⟨pd2, ld2⟩ := dl2
        have e1' : pd1 = pd2 := hd.1
        subst e1'
        simp only
        have hy := evalE_le he sr
        cases h4 : evalE e2 sr with
        | error k => trivial
        | ok sl2 =>
          rw [h4] at hy
          obtain ⟨sl1, h3, hsr⟩ := hy
          rw [h3]
          obtain ⟨ps1, ls1⟩ := sl1; obtain ⟨ps2, ls2⟩ := sl2
          have e2' : ps1 = ps2 := hsr.1
          subst e2'
          simp only
          have hz := evalE_le he cnt
          cases h6 : evalE e2 cnt with
          | error k => trivial
          | ok nl2 =>
            rw [h6] at hz
            obtain ⟨nl1, h5, hn⟩ := hz
            rw [h5]
            obtain ⟨vn1, ln1⟩ := nl1; obtain ⟨vn2, ln2⟩ := nl2
            have e3' : vn1 = vn2 := hn.1
            subst e3'
            simp only
            by_cases hq : (ld2 ≠ Lab.pub || ls2 ≠ Lab.pub || ln2 ≠ Lab.pub) = true
            · simp only [hq, if_true]; trivial
            · have hq2 : ld2 = Lab.pub ∧ ls2 = Lab.pub ∧ ln2 = Lab.pub := by
                cases ld2 <;> cases ls2 <;> cases ln2 <;> simp at hq ⊢
              have hq1 : ld1 = Lab.pub ∧ ls1 = Lab.pub ∧ ln1 = Lab.pub := by
                refine ⟨?_, ?_, ?_⟩
                · have := hd.2; simp only [hq2.1] at this; exact Lab.le_pub this
                · have := hsr.2; simp only [hq2.2.1] at this; exact Lab.le_pub this
                · have := hn.2; simp only [hq2.2.2] at this; exact Lab.le_pub this
              simp only [hq2.1, hq2.2.1, hq2.2.2, hq1.1, hq1.2.1, hq1.2.2, ne_eq, not_true_eq_false, decide_false, Bool.or_self, Bool.false_eq_true, if_false]
              rw [hs.leak]
              split
              · exact outLe_ok trivial he ⟨hs.mem, hs.ent, rfl⟩
              · rw [resolve_le hs.mem]
                cases hr : resolve s2.mem ps1 1 with
                | error k => trivial
                | ok bo =>
                  obtain ⟨bs, offs⟩ := bo
                  simp only
                  rw [(blockBytes_le hs.mem bs).size_eq]
                  split
                  · trivial
                  · rw [resolve_le hs.mem]
                    cases hr2 : resolve s2.mem pd1 1 with
                    | error k => trivial
                    | ok bo2 =>
                      obtain ⟨bd, offd⟩ := bo2
                      simp only
                      rw [(blockBytes_le hs.mem bd).size_eq]
                      split
                      · trivial
                      · exact outLe_ok trivial he ⟨setBlock_le hs.mem bd (writeBytes_le (blockBytes_le hs.mem bd) offd
                          (sliceBytes_le (blockBytes_le hs.mem bs) offs vn1)), hs.ent, rfl⟩
    | memset d v cnt =>
      simp only [exec]
      have hx := evalE_le he d
      cases h2 : evalE e2 d with
      | error k => trivial
      | ok dl2 =>
        rw [h2] at hx
        obtain ⟨dl1, h1, hd⟩ := hx
        rw [h1]
        obtain ⟨pd1, ld1⟩ := dl1; obtain ⟨pd2, ld2⟩ := dl2
        have e1' : pd1 = pd2 := hd.1
        subst e1'
        simp only
        have hy := evalE_le he v
        cases h4 : evalE e2 v with
        | error k => trivial
        | ok vl2 =>
          rw [h4] at hy
          obtain ⟨vl1, h3, hvv⟩ := hy
          rw [h3]
          obtain ⟨vv1, lv1⟩ := vl1; obtain ⟨vv2, lv2⟩ := vl2
          have e2' : vv1 = vv2 := hvv.1
          subst e2'
          simp only
          have hz := evalE_le he cnt
          cases h6 : evalE e2 cnt with
          | error k => trivial
          | ok nl2 =>
            rw [h6] at hz
            obtain ⟨nl1, h5, hn⟩ := hz
            rw [h5]
            obtain ⟨vn1, ln1⟩ := nl1; obtain ⟨vn2, ln2⟩ := nl2
            have e3' : vn1 = vn2 := hn.1
            subst e3'
            simp only
            by_cases hq : (ld2 ≠ Lab.pub || ln2 ≠ Lab.pub) = true
            · simp only [hq, if_true]; trivial
            · have hq2 : ld2 = Lab.pub ∧ ln2 = Lab.pub := by
                cases ld2 <;> cases ln2 <;> simp at hq ⊢
              have hq1 : ld1 = Lab.pub ∧ ln1 = Lab.pub := by
                refine ⟨?_, ?_⟩
                · have := hd.2; simp only [hq2.1] at this; exact Lab.le_pub this
                · have := hn.2; simp only [hq2.2] at this; exact Lab.le_pub this
              simp only [hq2.1, hq2.2, hq1.1, hq1.2, ne_eq, not_true_eq_false, decide_false, Bool.or_self, Bool.false_eq_true, if_false]
              rw [hs.leak]
              split
              · exact outLe_ok trivial he ⟨hs.mem, hs.ent, rfl⟩
              · rw [resolve_le hs.mem]
                cases hr2 : resolve s2.mem pd1 1 with
                | error k => trivial
                | ok bo2 =>
                  obtain ⟨bd, offd⟩ := bo2
                  simp only
                  rw [(blockBytes_le hs.mem bd).size_eq]
                  split
                  · trivial
                  · exact outLe_ok trivial he ⟨setBlock_le hs.mem bd (writeBytes_le (blockBytes_le hs.mem bd) offd
                      (L2.replicate vn1 (show VLe ((vv1 % 256).toUInt8, lv1) ((vv1 % 256).toUInt8, lv2) from ⟨rfl, hvv.2⟩))), hs.ent, rfl⟩
    | entropy dst buf =>
      simp only [exec]
      have hx := evalE_le he buf
      cases h2 : evalE e2 buf with
      | error k => trivial
      | ok vl2 =>
        rw [h2] at hx
        obtain ⟨vl1, h1, hab⟩ := hx
        rw [h1]
        obtain ⟨p1, l1⟩ := vl1; obtain ⟨p2, l2⟩ := vl2
        have ev : p1 = p2 := hab.1
        subst ev
        simp only
        by_cases hp : l2 = Lab.pub
        · have hp1 : l1 = Lab.pub := by rw [hp] at hab; exact Lab.le_pub hab.2
          simp only [hp, hp1, ne_eq, not_true_eq_false, if_false]
          have hd := deliver_le hs p1 32
          cases h10 : deliver s2 p1 32 with
          | error k => trivial
          | ok r2 =>
            rw [h10] at hd
            obtain ⟨r1, h9, hr, ht⟩ := hd
            rw [h9]
            simp only
            have ha := assignDst_le dst he (v1 := some r1.1) (v2 := some r2.1) hr
            cases h12 : assignDst dst e2 (some r2.1) with
            | error k => trivial
            | ok b =>
              rw [h12] at ha
              obtain ⟨a, h11, hab'⟩ := ha
              rw [h11]
              exact ⟨_, _, _, rfl, trivial, hab', ht⟩
        · simp only [ne_eq, hp, not_false_eq_true, if_true]; trivial

end TJ.MiniC
