/-
  TJ.MiniC.Local — a completed execution depends only on the blocks its trace names.

  `exec_local`: if a statement / call of any program completes in state `st1` with trace `new`, and `st2` agrees with `st1` on every
  block an event of `new` reads or writes (same number of blocks, same entropy script), then in `st2` it completes with the same
  signal, the same environment (hence the same results), the same trace, and the two final memories again agree on those blocks.
  With the frame theorem (every other block is left as it was) this gives `call_independent` and `calls_commute`
  (TJ.Props.C19): the model-level content of "a call's result never depends on unrelated objects or earlier unrelated calls".
-/
import TJ.MiniC.Frame
namespace TJ.MiniC

def Touch (T : Nat → Prop) (new : List Ev) : Prop := ∀ e ∈ new, ∀ b ∈ evTouches e, T b

structure Sim (T : Nat → Prop) (st1 st2 : St) : Prop where
  size : st1.mem.size = st2.mem.size
  ent : st1.ent = st2.ent
  mem : ∀ b, T b → st1.mem[b]? = st2.mem[b]?

def LocalOut (T : Nat → Prop) (st1 st2 : St) (o1 o2 : Out) : Prop :=
  match o1 with
  | .ok sig env' st1' => ∀ new, st1'.leak = new ++ st1.leak → Touch T new →
      ∃ st2', o2 = .ok sig env' st2' ∧ st2'.leak = new ++ st2.leak ∧ Sim T st1' st2'
  | _ => True

theorem touch_append {T : Nat → Prop} {a b : List Ev} : Touch T (a ++ b) ↔ Touch T a ∧ Touch T b := by
  constructor
  · intro h; exact ⟨fun e he => h e (List.mem_append_left _ he), fun e he => h e (List.mem_append_right _ he)⟩
  · intro ⟨ha, hb⟩ e he
    rcases List.mem_append.mp he with h | h
    · exact ha e h
    · exact hb e h

theorem new_eq_one {ev : Ev} {l new : List Ev} (h : ev :: l = new ++ l) : new = [ev] := by
  have : [ev] ++ l = new ++ l := h
  exact (List.append_cancel_right this).symm

theorem new_eq_nil {l new : List Ev} (h : l = new ++ l) : new = [] := by
  have : [] ++ l = new ++ l := h
  exact (List.append_cancel_right this).symm

theorem resolve_congr (mem1 mem2 : Array Block) (p n : Nat) (h : mem1[ptrBlock p]? = mem2[ptrBlock p]?) :
    resolve mem1 p n = resolve mem2 p n := by
  unfold resolve
  unfold ptrBlock at h
  simp only [h]

theorem blockBytes_congr (mem1 mem2 : Array Block) (b : Nat) (h : mem1[b]? = mem2[b]?) : blockBytes mem1 b = blockBytes mem2 b := by
  unfold blockBytes; rw [h]

theorem getElem?_setBlock' (mem : Array Block) (b j : Nat) (x : Array LByte) :
    (setBlock mem b x)[j]? = if j = b then (mem[b]?).map (fun blk => { blk with bytes := x }) else mem[j]? := by
  by_cases hj : j = b
  · subst hj
    simp only [if_true]
    unfold setBlock
    cases hm : mem[j]? with
    | none => simp [hm]
    | some blk =>
      simp only [Option.map]
      rw [Array.getElem?_setIfInBounds]
      have hlt : j < mem.size := by
        by_cases h : j < mem.size
        · exact h
        · rw [Array.getElem?_eq_none (by omega)] at hm; cases hm
      simp [hlt]
  · simp only [hj, if_false]
    exact getElem?_setBlock_ne mem b j x hj

theorem sim_refl_leak {T : Nat → Prop} {st1 st2 : St} (h : Sim T st1 st2) (l1 l2 : List Ev) :
    Sim T { st1 with leak := l1 } { st2 with leak := l2 } := ⟨h.size, h.ent, h.mem⟩

theorem sim_write {T : Nat → Prop} {st1 st2 : St} (h : Sim T st1 st2) (b : Nat) (hb : T b) (x : Array LByte) (l1 l2 : List Ev) :
    Sim T { st1 with leak := l1, mem := setBlock st1.mem b x } { st2 with leak := l2, mem := setBlock st2.mem b x } := by
  refine ⟨by simp only [size_setBlock']; exact h.size, h.ent, fun c hc => ?_⟩
  simp only [getElem?_setBlock']
  by_cases hcb : c = b
  · simp only [hcb, if_true, h.mem b hb]
  · simp only [hcb, if_false]; exact h.mem c hc

/-- composition: a first part with trace `newa`, then an outcome related from the intermediate states -/
theorem localOut_trans {T : Nat → Prop} {st1 st2 s1a : St} {o1 o2 : Out} (newa : List Ev) (h1 : s1a.leak = newa ++ st1.leak)
    (hfr : FrameOk s1a o1)
    (hcont : Touch T newa → ∃ s2a, s2a.leak = newa ++ st2.leak ∧ LocalOut T s1a s2a o1 o2) : LocalOut T st1 st2 o1 o2 := by
  cases o1 with
  | timeout => trivial
  | fault _ _ => trivial
  | ok sig env' st1' =>
    intro new hnew ht
    obtain ⟨_, newb, hlb, _⟩ := hfr
    have hsplit : new = newb ++ newa := by
      have : new ++ st1.leak = (newb ++ newa) ++ st1.leak := by rw [← hnew, hlb, h1, List.append_assoc]
      exact List.append_cancel_right this
    subst hsplit
    obtain ⟨hb, ha⟩ := touch_append.mp ht
    obtain ⟨s2a, hl2, hloc⟩ := hcont ha
    obtain ⟨st2', ho, hl, hs⟩ := hloc newb hlb hb
    exact ⟨st2', ho, by rw [hl, hl2, List.append_assoc], hs⟩

theorem sim_alloc {T : Nat → Prop} (al : List (Nat × Nat)) : ∀ (env : Env) (mem1 mem2 : Array Block), mem1.size = mem2.size →
    (∀ b, T b → mem1[b]? = mem2[b]?) →
    (allocLocals al env mem1).1 = (allocLocals al env mem2).1 ∧ (allocLocals al env mem1).2.size = (allocLocals al env mem2).2.size ∧
      ∀ b, T b → (allocLocals al env mem1).2[b]? = (allocLocals al env mem2).2[b]? := by
  induction al with
  | nil => intro env mem1 mem2 hs hm; exact ⟨rfl, hs, hm⟩
  | cons a rest ih =>
    intro env mem1 mem2 hs hm
    obtain ⟨x, size⟩ := a
    simp only [allocLocals]
    rw [hs]
    apply ih
    · simp only [Array.size_push, hs]
    · intro b hb
      simp only [Array.getElem?_push, hs]
      split
      · rfl
      · exact hm b hb

theorem localOut_leave {T : Nat → Prop} (dst : Option Nat) (env : Env) (st1 st2 e1 e2 : St) (o1 o2 : Out)
    (hsz : st1.mem.size = st2.mem.size) (hl1 : e1.leak = st1.leak) (hl2 : e2.leak = st2.leak)
    (h : LocalOut T e1 e2 o1 o2) : LocalOut T st1 st2 (leaveFun dst env st1.mem.size o1) (leaveFun dst env st2.mem.size o2) := by
  cases o1 with
  | timeout => trivial
  | fault _ _ => trivial
  | ok sig env' s1' =>
    simp only [leaveFun]
    cases ha : assignDst dst env sig.retVal with
    | error k => trivial
    | ok env'' =>
      intro new hnew ht
      simp only at hnew
      obtain ⟨s2', ho, hl, hs⟩ := h new (by rw [hnew, hl1]) ht
      subst ho
      refine ⟨{ s2' with mem := s2'.mem.extract 0 st2.mem.size }, ?_, by simp only [hl, hl2], ?_⟩
      · simp only [ha]
      · refine ⟨?_, hs.ent, fun b hb => ?_⟩
        · simp only [Array.size_extract, hs.size, hsz]
        · simp only [Array.getElem?_extract, hs.size, hsz, Nat.zero_add, hs.mem b hb]

theorem deliver_local {T : Nat → Prop} {st1 st2 : St} (h : Sim T st1 st2) (buf size : Nat) (r : LVal) (s1' : St)
    (hd : deliver st1 buf size = .ok (r, s1')) (ht : Touch T [.ent buf size]) :
    ∃ s2', deliver st2 buf size = .ok (r, s2') ∧ s1'.leak = .ent buf size :: st1.leak ∧ s2'.leak = .ent buf size :: st2.leak ∧ Sim T s1' s2' := by
  unfold deliver at hd ⊢
  simp only at hd ⊢
  rw [← h.ent]
  split at hd
  · rename_i hn
    have := Except.ok.inj hd
    have e1 := congrArg Prod.fst this
    have e2 := congrArg Prod.snd this
    simp only at e1 e2
    subst e1 e2
    simp only [hn, if_true]
    exact ⟨_, rfl, trivial, rfl, ⟨h.size, rfl, h.mem⟩⟩
  · rename_i hn
    simp only [hn, if_false]
    cases hr : resolve st1.mem buf 1 with
    | error k => rw [hr] at hd; cases hd
    | ok bo =>
      obtain ⟨b0, off⟩ := bo
      rw [hr] at hd
      simp only at hd
      have hb0 := resolve_block hr
      have hnz : ¬ (size = 0 ∨ buf / ptrBase = 0) := by
        intro hc
        rcases hc with hc | hc
        · apply hn; rw [hc]; exact Nat.min_zero _
        · simp only [resolve, hc, if_true] at hr; cases hr
      have hT : T (ptrBlock buf) := by
        apply ht (.ent buf size) (List.mem_singleton.mpr rfl)
        simp only [evTouches, hnz, if_false, List.mem_singleton]
      have hm := h.mem _ hT
      rw [← resolve_congr st1.mem st2.mem buf 1 hm, hr]
      simp only
      rw [hb0] at hd ⊢
      rw [← blockBytes_congr st1.mem st2.mem _ hm]
      split at hd
      · cases hd
      · rename_i hoob
        simp only [hoob, if_false]
        have := Except.ok.inj hd
        have e1 := congrArg Prod.fst this
        have e2 := congrArg Prod.snd this
        simp only at e1 e2
        subst e1 e2
        refine ⟨_, rfl, rfl, rfl, ?_⟩
        have := sim_write (T := T) (st1 := { st1 with ent := st1.ent.tail }) (st2 := { st2 with ent := st1.ent.tail }) ⟨h.size, rfl, h.mem⟩ (ptrBlock buf) hT
          (writeBytes (blockBytes st1.mem (ptrBlock buf)) off (List.map (fun x => (x, Lab.sec)) (List.take (min (st1.ent.headD ([], 0)).1.length size) (st1.ent.headD ([], 0)).1)))
          (Ev.ent buf size :: st1.leak) (Ev.ent buf size :: st2.leak)
        exact this

theorem deliver_leak {st : St} {buf size : Nat} {r : LVal} {s' : St} (hd : deliver st buf size = .ok (r, s')) :
    s'.leak = .ent buf size :: st.leak := by
  unfold deliver at hd
  simp only at hd
  split at hd
  · have := Except.ok.inj hd
    have e2 := congrArg Prod.snd this
    simp only at e2
    rw [← e2]
  · cases hr : resolve st.mem buf 1 with
    | error k => rw [hr] at hd; cases hd
    | ok bo =>
      rw [hr] at hd
      simp only at hd
      split at hd
      · cases hd
      · have := Except.ok.inj hd
        have e2 := congrArg Prod.snd this
        simp only at e2
        rw [← e2]

theorem localOut_leaf {T : Nat → Prop} {st1 st2 : St} (h : Sim T st1 st2) (sig : Sig) (env' : Env) :
    LocalOut T st1 st2 (.ok sig env' st1) (.ok sig env' st2) := by
  intro new hnew _
  rw [new_eq_nil hnew]
  exact ⟨st2, rfl, rfl, h⟩

/-- **Locality theorem.** -/
theorem exec_local (T : Nat → Prop) (prog : Program) (fuel : Nat) : ∀ (s : Stmt) (env : Env) (st1 st2 : St), Sim T st1 st2 →
    LocalOut T st1 st2 (exec prog fuel s env st1) (exec prog fuel s env st2) := by
  induction fuel with
  | zero => intro s env st1 st2 _; simp only [exec]; trivial
  | succ n ih =>
    intro s env st1 st2 hsim
    cases s with
    | skip => simp only [exec]; exact localOut_leaf hsim _ _
    | brk => simp only [exec]; exact localOut_leaf hsim _ _
    | assign x e =>
      simp only [exec]
      cases evalE env e with
      | error k => trivial
      | ok v => exact localOut_leaf hsim _ _
    | ret e =>
      cases e with
      | none => simp only [exec]; exact localOut_leaf hsim _ _
      | some e =>
        simp only [exec]
        cases evalE env e with
        | error k => trivial
        | ok v => exact localOut_leaf hsim _ _
    | seq a b =>
      simp only [exec]
      have ha := ih a env st1 st2 hsim
      have hfa := exec_frame prog n a env st1
      cases hr : exec prog n a env st1 with
      | timeout => trivial
      | fault _ _ => trivial
      | ok g e1 s1 =>
        rw [hr] at ha hfa
        obtain ⟨_, newa, hla, _⟩ := hfa
        cases g with
        | normal =>
          simp only
          apply localOut_trans newa hla (exec_frame prog n b e1 s1)
          intro hta
          obtain ⟨s2a, h2, hl2, hs⟩ := ha newa hla hta
          refine ⟨s2a, hl2, ?_⟩
          rw [h2]
          exact ih b e1 s1 s2a hs
        | brk =>
          intro new hnew ht
          obtain ⟨s2a, h2, hl2, hs⟩ := ha new hnew ht
          exact ⟨s2a, by rw [h2], hl2, hs⟩
        | ret v =>
          intro new hnew ht
          obtain ⟨s2a, h2, hl2, hs⟩ := ha new hnew ht
          exact ⟨s2a, by rw [h2], hl2, hs⟩
    | loop body =>
      simp only [exec]
      have ha := ih body env st1 st2 hsim
      have hfa := exec_frame prog n body env st1
      cases hr : exec prog n body env st1 with
      | timeout => trivial
      | fault _ _ => trivial
      | ok g e1 s1 =>
        rw [hr] at ha hfa
        obtain ⟨_, newa, hla, _⟩ := hfa
        cases g with
        | normal =>
          simp only
          apply localOut_trans newa hla (exec_frame prog n (.loop body) e1 s1)
          intro hta
          obtain ⟨s2a, h2, hl2, hs⟩ := ha newa hla hta
          refine ⟨s2a, hl2, ?_⟩
          rw [h2]
          exact ih (.loop body) e1 s1 s2a hs
        | brk =>
          intro new hnew ht
          obtain ⟨s2a, h2, hl2, hs⟩ := ha new hnew ht
          exact ⟨s2a, by rw [h2], hl2, hs⟩
        | ret v =>
          intro new hnew ht
          obtain ⟨s2a, h2, hl2, hs⟩ := ha new hnew ht
          exact ⟨s2a, by rw [h2], hl2, hs⟩
    | ite c a b =>
      simp only [exec]
      cases evalE env c with
      | error k => trivial
      | ok vl =>
        obtain ⟨v, l⟩ := vl
        simp only
        split
        · trivial
        · split
          · apply localOut_trans [Ev.br (v != 0)] (s1a := { st1 with leak := Ev.br (v != 0) :: st1.leak }) rfl (exec_frame prog n a env _)
            intro _
            exact ⟨{ st2 with leak := Ev.br (v != 0) :: st2.leak }, rfl, ih a env _ _ (sim_refl_leak hsim _ _)⟩
          · apply localOut_trans [Ev.br (v != 0)] (s1a := { st1 with leak := Ev.br (v != 0) :: st1.leak }) rfl (exec_frame prog n b env _)
            intro _
            exact ⟨{ st2 with leak := Ev.br (v != 0) :: st2.leak }, rfl, ih b env _ _ (sim_refl_leak hsim _ _)⟩
    | load x t addr =>
      simp only [exec]
      cases evalE env addr with
      | error k => trivial
      | ok vl =>
        obtain ⟨p, l⟩ := vl
        simp only
        split
        · trivial
        · cases hr : resolve st1.mem p t.bytes with
          | error k => trivial
          | ok bo =>
            obtain ⟨b0, off⟩ := bo
            simp only
            cases hv : readLE (blockBytes st1.mem b0) off t.bytes with
            | none => trivial
            | some v =>
              intro new hnew ht
              simp only at hnew
              have hn := new_eq_one hnew
              subst hn
              have hT : T (ptrBlock p) := ht _ (List.mem_singleton.mpr rfl) _ (by simp only [evTouches, List.mem_singleton])
              have hm := hsim.mem _ hT
              rw [← resolve_congr st1.mem st2.mem p t.bytes hm, hr]
              simp only
              rw [resolve_block hr] at hv ⊢
              rw [← blockBytes_congr st1.mem st2.mem _ hm, hv]
              exact ⟨_, rfl, rfl, sim_refl_leak hsim _ _⟩
    | store t addr e =>
      simp only [exec]
      cases evalE env addr with
      | error k => trivial
      | ok vl =>
        obtain ⟨p, l⟩ := vl
        simp only
        split
        · trivial
        · cases evalE env e with
          | error k => trivial
          | ok wl =>
            obtain ⟨w, lw⟩ := wl
            simp only
            cases hr : resolve st1.mem p t.bytes with
            | error k => trivial
            | ok bo =>
              obtain ⟨b0, off⟩ := bo
              simp only
              intro new hnew ht
              simp only at hnew
              have hn := new_eq_one hnew
              subst hn
              have hT : T (ptrBlock p) := ht _ (List.mem_singleton.mpr rfl) _ (by simp only [evTouches, List.mem_singleton])
              have hm := hsim.mem _ hT
              rw [← resolve_congr st1.mem st2.mem p t.bytes hm, hr]
              simp only
              rw [resolve_block hr]
              rw [← blockBytes_congr st1.mem st2.mem _ hm]
              exact ⟨_, rfl, rfl, sim_write hsim _ hT _ _ _⟩
    | call dst f args =>
      simp only [exec]
      cases evalArgs env args with
      | error k => trivial
      | ok vs =>
        simp only
        cases prog[f]? with
        | none => trivial
        | some fd =>
          simp only
          split
          · trivial
          · have hal := sim_alloc (T := T) fd.allocs (vs ++ List.replicate (fd.nvars - fd.nparams) (0, Lab.undef)).toArray st1.mem st2.mem hsim.size hsim.mem
            simp only [enterFun]
            rw [← hal.1]
            exact localOut_leave dst env st1 st2 _ _ _ _ hsim.size rfl rfl (ih fd.body _ _ _ ⟨hal.2.1, hsim.ent, hal.2.2⟩)
    | calli dst fp args =>
      simp only [exec]
      cases evalE env fp with
      | error k => trivial
      | ok vl =>
        obtain ⟨f, l⟩ := vl
        simp only
        split
        · trivial
        · cases evalArgs env args with
          | error k => trivial
          | ok vs =>
            simp only
            split
            · split
              · trivial
              · cases vs[1]? with
                | none => trivial
                | some bl =>
                  obtain ⟨buf, lb⟩ := bl
                  simp only
                  cases vs[2]? with
                  | none => trivial
                  | some sl =>
                    obtain ⟨size, ls⟩ := sl
                    simp only
                    split
                    · trivial
                    · cases hd : deliver { st1 with leak := Ev.icall f :: st1.leak } buf size with
                      | error k => trivial
                      | ok r =>
                        obtain ⟨v, s1'⟩ := r
                        simp only
                        cases hasg : assignDst dst env (some v) with
                        | error k => trivial
                        | ok env' =>
                          intro new hnew ht
                          have hfr := deliver_frame _ buf size v s1' hd
                          obtain ⟨_, nw, hnw, _⟩ := hfr
                          have hsim0 : Sim T { st1 with leak := Ev.icall f :: st1.leak } { st2 with leak := Ev.icall f :: st2.leak } := sim_refl_leak hsim _ _
                          -- the delivery's own event
                          have hd1 : ∃ s2', deliver { st2 with leak := Ev.icall f :: st2.leak } buf size = .ok (v, s2') ∧
                              s1'.leak = .ent buf size :: Ev.icall f :: st1.leak ∧ s2'.leak = .ent buf size :: Ev.icall f :: st2.leak ∧ Sim T s1' s2' := by
                            have hl : s1'.leak = Ev.ent buf size :: Ev.icall f :: st1.leak := deliver_leak hd
                            have hn2 : new = [Ev.ent buf size, Ev.icall f] := by
                              have : new ++ st1.leak = [Ev.ent buf size, Ev.icall f] ++ st1.leak := by rw [← hnew, hl]; rfl
                              exact List.append_cancel_right this
                            have ht1 : Touch T [Ev.ent buf size] := fun e he => ht e (by rw [hn2, List.mem_singleton.mp he]; exact List.mem_cons_self)
                            obtain ⟨s2', h2, _, hl2, hs⟩ := deliver_local hsim0 buf size v s1' hd ht1
                            exact ⟨s2', h2, hl, hl2, hs⟩
                          obtain ⟨s2', h2, hl1, hl2, hs⟩ := hd1
                          rw [h2]
                          simp only [hasg]
                          have hn2 : new = [Ev.ent buf size, Ev.icall f] := by
                            have : new ++ st1.leak = [Ev.ent buf size, Ev.icall f] ++ st1.leak := by rw [← hnew, hl1]; rfl
                            exact List.append_cancel_right this
                          exact ⟨s2', rfl, by rw [hl2, hn2]; rfl, hs⟩
            · split
              · trivial
              · cases prog[f - fnBase]? with
                | none => trivial
                | some fd =>
                  simp only
                  split
                  · trivial
                  · have hal := sim_alloc (T := T) fd.allocs (vs ++ List.replicate (fd.nvars - fd.nparams) (0, Lab.undef)).toArray st1.mem st2.mem hsim.size hsim.mem
                    simp only [enterFun]
                    rw [← hal.1]
                    apply localOut_trans [Ev.icall f] (s1a := { st1 with leak := Ev.icall f :: st1.leak }) rfl
                    · exact frameOk_leave dst env { st1 with leak := Ev.icall f :: st1.leak }
                        { st1 with leak := Ev.icall f :: st1.leak, mem := (allocLocals fd.allocs (vs ++ List.replicate (fd.nvars - fd.nparams) (0, Lab.undef)).toArray st1.mem).2 } _
                        (allocLocals_mem _ _ _).1 (allocLocals_mem _ _ _).2 rfl (exec_frame prog n fd.body _ _)
                    · intro _
                      refine ⟨{ st2 with leak := Ev.icall f :: st2.leak }, rfl, ?_⟩
                      exact localOut_leave dst env { st1 with leak := Ev.icall f :: st1.leak } { st2 with leak := Ev.icall f :: st2.leak } _ _ _ _ hsim.size rfl rfl
                        (ih fd.body _ _ _ ⟨hal.2.1, hsim.ent, hal.2.2⟩)
    | memcpy d sr cnt =>
      simp only [exec]
      cases evalE env d with
      | error k => trivial
      | ok dl =>
        obtain ⟨pd, ld⟩ := dl
        simp only
        cases evalE env sr with
        | error k => trivial
        | ok sl =>
          obtain ⟨ps, ls⟩ := sl
          simp only
          cases evalE env cnt with
          | error k => trivial
          | ok nl =>
            obtain ⟨vn, ln⟩ := nl
            simp only
            split
            · trivial
            · split
              · intro new hnew ht
                simp only at hnew
                rw [new_eq_one hnew]
                exact ⟨_, rfl, rfl, sim_refl_leak hsim _ _⟩
              · rename_i hvn
                cases hrs : resolve st1.mem ps 1 with
                | error k => trivial
                | ok bo =>
                  obtain ⟨bs, offs⟩ := bo
                  simp only
                  split
                  · trivial
                  · rename_i hso
                    cases hrd : resolve st1.mem pd 1 with
                    | error k => trivial
                    | ok bo2 =>
                      obtain ⟨bd, offd⟩ := bo2
                      simp only
                      split
                      · trivial
                      · rename_i hdo
                        intro new hnew ht
                        simp only at hnew
                        have hn := new_eq_one hnew
                        subst hn
                        have hTd : T (ptrBlock pd) := ht _ (List.mem_singleton.mpr rfl) _ (by simp only [evTouches, hvn, if_false]; exact List.mem_cons_self)
                        have hTs : T (ptrBlock ps) := ht _ (List.mem_singleton.mpr rfl) _ (by simp only [evTouches, hvn, if_false]; exact List.mem_cons_of_mem _ List.mem_cons_self)
                        have hmd := hsim.mem _ hTd
                        have hms := hsim.mem _ hTs
                        rw [← resolve_congr st1.mem st2.mem ps 1 hms, hrs]
                        simp only
                        rw [← resolve_congr st1.mem st2.mem pd 1 hmd, hrd]
                        simp only
                        rw [resolve_block hrs] at hso ⊢
                        rw [resolve_block hrd] at hdo ⊢
                        rw [← blockBytes_congr st1.mem st2.mem _ hms, ← blockBytes_congr st1.mem st2.mem _ hmd]
                        simp only [hso, hdo, if_false]
                        exact ⟨_, rfl, rfl, sim_write hsim _ hTd _ _ _⟩
    | memset d v cnt =>
      simp only [exec]
      cases evalE env d with
      | error k => trivial
      | ok dl =>
        obtain ⟨pd, ld⟩ := dl
        simp only
        cases evalE env v with
        | error k => trivial
        | ok vl =>
          obtain ⟨vv, lv⟩ := vl
          simp only
          cases evalE env cnt with
          | error k => trivial
          | ok nl =>
            obtain ⟨vn, ln⟩ := nl
            simp only
            split
            · trivial
            · split
              · intro new hnew ht
                simp only at hnew
                rw [new_eq_one hnew]
                exact ⟨_, rfl, rfl, sim_refl_leak hsim _ _⟩
              · rename_i hvn
                cases hrd : resolve st1.mem pd 1 with
                | error k => trivial
                | ok bo2 =>
                  obtain ⟨bd, offd⟩ := bo2
                  simp only
                  split
                  · trivial
                  · rename_i hdo
                    intro new hnew ht
                    simp only at hnew
                    have hn := new_eq_one hnew
                    subst hn
                    have hTd : T (ptrBlock pd) := ht _ (List.mem_singleton.mpr rfl) _ (by simp only [evTouches, hvn, if_false, List.mem_singleton])
                    have hmd := hsim.mem _ hTd
                    rw [← resolve_congr st1.mem st2.mem pd 1 hmd, hrd]
                    simp only
                    rw [resolve_block hrd] at hdo ⊢
                    rw [← blockBytes_congr st1.mem st2.mem _ hmd]
                    simp only [hdo, if_false]
                    exact ⟨_, rfl, rfl, sim_write hsim _ hTd _ _ _⟩
    | entropy dst buf =>
      simp only [exec]
      cases evalE env buf with
      | error k => trivial
      | ok vl =>
        obtain ⟨p, l⟩ := vl
        simp only
        split
        · trivial
        · cases hd : deliver st1 p 32 with
          | error k => trivial
          | ok r =>
            obtain ⟨v, s1'⟩ := r
            simp only
            cases hasg : assignDst dst env (some v) with
            | error k => trivial
            | ok env' =>
              intro new hnew ht
              have hl : s1'.leak = Ev.ent p 32 :: st1.leak := deliver_leak hd
              have hn2 : new = [Ev.ent p 32] := by
                have : new ++ st1.leak = [Ev.ent p 32] ++ st1.leak := by rw [← hnew, hl]; rfl
                exact List.append_cancel_right this
              subst hn2
              obtain ⟨s2', h2, _, hl2, hs⟩ := deliver_local hsim p 32 v s1' hd ht
              rw [h2]
              simp only [hasg]
              exact ⟨s2', rfl, by rw [hl2]; rfl, hs⟩

end TJ.MiniC
