/-
  TJ.MiniC.NI — non-interference of the MiniC semantics (`TJ.MiniC.Sem`):

    two executions of the same statement / function, with the same fuel, from states that agree on
    everything labelled public (same labels everywhere; equal values where the label is `pub`;
    entropy deliveries of the same lengths and return values) produce
      * the same leakage trace (branch outcomes, addresses and sizes of all accesses, memcpy/memset
        triples, indirect call targets),
      * the same outcome kind (normal / break / return / the same fault / timeout),
      * final states that again agree on everything public.

  Consequently the leakage of any run is a function of the public part of its input, and whether a
  run ends in the fault `taint` (a secret reached a branch, address, length, shift amount or
  division) does not depend on the secrets either: one execution per public shape decides it for
  all secrets of that shape.
-/
import TJ.MiniC.Sem
namespace TJ.MiniC

/-! ### relations -/

def ORel {α} (R : α → α → Prop) : Option α → Option α → Prop
  | none, none => True
  | some a, some b => R a b
  | _, _ => False

def LRel {α} (a b : α × Lab) : Prop := a.2 = b.2 ∧ (a.2 = Lab.pub → a.1 = b.1)

theorem LRel.refl {α} (a : α × Lab) : LRel a a := ⟨rfl, fun _ => rfl⟩

def ARel {α} (R : α → α → Prop) (a b : Array α) : Prop := ∀ i : Nat, ORel R a[i]? b[i]?

inductive L2 {α} (R : α → α → Prop) : List α → List α → Prop
  | nil : L2 R [] []
  | cons {a b x y} : R a b → L2 R x y → L2 R (a :: x) (b :: y)

def ERel {α} (R : α → α → Prop) : Except Fault α → Except Fault α → Prop
  | .error k1, .error k2 => k1 = k2
  | .ok a, .ok b => R a b
  | _, _ => False

theorem ARel.size_eq {α} {R : α → α → Prop} {a b : Array α} (h : ARel R a b) : a.size = b.size := by
  rcases Nat.lt_trichotomy a.size b.size with hlt | heq | hgt
  · have := h a.size
    rw [Array.getElem?_eq_none (Nat.le_refl _), Array.getElem?_eq_getElem hlt] at this
    exact this.elim
  · exact heq
  · have := h b.size
    rw [Array.getElem?_eq_none (Nat.le_refl _), Array.getElem?_eq_getElem hgt] at this
    exact this.elim

theorem ARel.set {α} {R : α → α → Prop} {a b : Array α} (h : ARel R a b) (i : Nat) {x y : α} (hxy : R x y) :
    ARel R (a.setIfInBounds i x) (b.setIfInBounds i y) := by
  intro j
  have hs := h.size_eq
  have hj := h j
  rw [Array.getElem?_setIfInBounds, Array.getElem?_setIfInBounds]
  by_cases hij : i = j
  · subst hij
    by_cases hi : i < a.size
    · have hi' : i < b.size := hs ▸ hi
      simp [hi, hi', ORel, hxy]
    · have hi' : ¬ i < b.size := hs ▸ hi
      simp [hi, hi', ORel]
  · simp [hij]; exact hj

theorem ARel.push {α} {R : α → α → Prop} {a b : Array α} (h : ARel R a b) {x y : α} (hxy : R x y) :
    ARel R (a.push x) (b.push y) := by
  intro j
  rw [Array.getElem?_push, Array.getElem?_push, ← h.size_eq]
  by_cases hj : j = a.size
  · simp [hj, ORel, hxy]
  · simp [hj]; exact h j

theorem ARel.replicate {α} {R : α → α → Prop} (n : Nat) {x y : α} (hxy : R x y) :
    ARel R (Array.replicate n x) (Array.replicate n y) := by
  intro j
  rw [Array.getElem?_replicate, Array.getElem?_replicate]
  by_cases hj : j < n <;> simp [hj, ORel, hxy]

theorem ARel.extract0 {α} {R : α → α → Prop} {a b : Array α} (h : ARel R a b) (n : Nat) :
    ARel R (a.extract 0 n) (b.extract 0 n) := by
  intro j
  rw [Array.getElem?_extract, Array.getElem?_extract, ← h.size_eq]
  simp only [Nat.sub_zero, Nat.zero_add]
  by_cases hj : j < min n a.size
  · simp only [hj, if_true]; exact h j
  · simp only [hj, if_false]; trivial

theorem L2.toArray {α} {R : α → α → Prop} {x y : List α} (h : L2 R x y) : ARel R x.toArray y.toArray := by
  intro j
  simp only [List.getElem?_toArray]
  induction h generalizing j with
  | nil => simp [ORel]
  | cons hab _ ih =>
    cases j with
    | zero => simpa [ORel] using hab
    | succ j => simpa using ih j

theorem L2.append {α} {R : α → α → Prop} {x y u v : List α} (h : L2 R x y) (h' : L2 R u v) : L2 R (x ++ u) (y ++ v) := by
  induction h with
  | nil => simpa using h'
  | cons hab _ ih => exact .cons hab ih

theorem L2.replicate {α} {R : α → α → Prop} (n : Nat) {a b : α} (h : R a b) : L2 R (List.replicate n a) (List.replicate n b) := by
  induction n with
  | zero => exact .nil
  | succ n ih => exact .cons h ih

theorem L2.getElem? {α} {R : α → α → Prop} {x y : List α} (h : L2 R x y) (i : Nat) : ORel R x[i]? y[i]? := by
  induction h generalizing i with
  | nil => simp [ORel]
  | cons hab _ ih =>
    cases i with
    | zero => simpa [ORel] using hab
    | succ i => simpa using ih i

theorem L2.length_eq {α} {R : α → α → Prop} {x y : List α} (h : L2 R x y) : x.length = y.length := by
  induction h with
  | nil => rfl
  | cons _ _ ih => simp [ih]

abbrev EnvRel (e1 e2 : Env) : Prop := ARel LRel e1 e2
abbrev BytesRel (b1 b2 : Array LByte) : Prop := ARel LRel b1 b2

def BlockRel (b1 b2 : Block) : Prop := b1.base = b2.base ∧ BytesRel b1.bytes b2.bytes
abbrev MemRel (m1 m2 : Array Block) : Prop := ARel BlockRel m1 m2

def DelRel (d1 d2 : Delivery) : Prop := d1.2 = d2.2 ∧ d1.1.length = d2.1.length

structure StRel (s1 s2 : St) : Prop where
  mem : MemRel s1.mem s2.mem
  ent : L2 DelRel s1.ent s2.ent
  leak : s1.leak = s2.leak

def SigRel : Sig → Sig → Prop
  | .normal, .normal => True
  | .brk, .brk => True
  | .ret v1, .ret v2 => ORel LRel v1 v2
  | _, _ => False

def OutRel : Out → Out → Prop
  | .ok g1 e1 s1, .ok g2 e2 s2 => SigRel g1 g2 ∧ EnvRel e1 e2 ∧ StRel s1 s2
  | .fault k1 l1, .fault k2 l2 => k1 = k2 ∧ l1 = l2
  | .timeout, .timeout => True
  | _, _ => False


/-! ### expressions -/

theorem join_eq {a b c d : Lab} (h1 : a = c) (h2 : b = d) : a.join b = c.join d := by subst h1; subst h2; rfl

theorem join_pub {a b : Lab} (h : a.join b = .pub) : a = .pub ∧ b = .pub := by
  cases a <;> cases b <;> simp [Lab.join] at h ⊢

/-- failure of a binary operation is decided by the operation, the type and the second operand -/
theorem binVal_none (op : BinOp) (t : Ty) (a a' b : Nat) : (binVal op t a b).isNone = (binVal op t a' b).isNone := by
  cases op <;> simp only [binVal] <;> (try rfl) <;> split <;> (try rfl) <;> (try split) <;> rfl

theorem binVal_some_of_not_needs (op : BinOp) (t : Ty) (a b : Nat) (h : op.needsPub2 = false) :
    (binVal op t a b).isSome = true := by
  cases op <;> simp [BinOp.needsPub2] at h <;> simp [binVal]

theorem evalE_rel {e1 e2 : Env} (h : EnvRel e1 e2) (x : Expr) : ERel LRel (evalE e1 x) (evalE e2 x) := by
  induction x with
  | lit n => exact LRel.refl _
  | var x =>
    simp only [evalE]
    have hx := h x
    cases h1 : e1[x]? with
    | none => cases h2 : e2[x]? with
      | none => rfl
      | some b => rw [h1, h2] at hx; exact hx.elim
    | some a => cases h2 : e2[x]? with
      | none => rw [h1, h2] at hx; exact hx.elim
      | some b =>
        rw [h1, h2] at hx
        obtain ⟨va, la⟩ := a; obtain ⟨vb, lb⟩ := b
        have hl : la = lb := hx.1
        subst hl
        simp only
        split
        · rfl
        · exact hx
  | bin op t a b iha ihb =>
    simp only [evalE]
    cases ha1 : evalE e1 a with
    | error k1 => cases ha2 : evalE e2 a with
      | error k2 => rw [ha1, ha2] at iha; exact iha
      | ok v2 => rw [ha1, ha2] at iha; exact iha.elim
    | ok v1 => cases ha2 : evalE e2 a with
      | error k2 => rw [ha1, ha2] at iha; exact iha.elim
      | ok v2 =>
        rw [ha1, ha2] at iha
        obtain ⟨va1, la1⟩ := v1; obtain ⟨va2, la2⟩ := v2
        have hla : la1 = la2 := iha.1
        subst hla
        simp only
        cases hb1 : evalE e1 b with
        | error k1 => cases hb2 : evalE e2 b with
          | error k2 => rw [hb1, hb2] at ihb; exact ihb
          | ok w2 => rw [hb1, hb2] at ihb; exact ihb.elim
        | ok w1 => cases hb2 : evalE e2 b with
          | error k2 => rw [hb1, hb2] at ihb; exact ihb.elim
          | ok w2 =>
            rw [hb1, hb2] at ihb
            obtain ⟨vb1, lb1⟩ := w1; obtain ⟨vb2, lb2⟩ := w2
            have hlb : lb1 = lb2 := ihb.1
            subst hlb
            simp only
            by_cases ht : ((op.needsPub2 && lb1 ≠ .pub) || (op.needsPub1 && la1 ≠ .pub)) = true
            · simp only [ht, if_true]; rfl
            · simp only [ht, if_false]
              have hnone : (binVal op t va1 vb1).isNone = (binVal op t va2 vb2).isNone := by
                by_cases hn : op.needsPub2 = true
                · have hp : lb1 = .pub := by
                    cases hl : lb1 <;> simp [hn, hl] at ht ⊢
                  have : vb1 = vb2 := ihb.2 hp
                  subst this; exact binVal_none op t va1 va2 vb1
                · have hn' : op.needsPub2 = false := by simpa using hn
                  have h1 := binVal_some_of_not_needs op t va1 vb1 hn'
                  have h2 := binVal_some_of_not_needs op t va2 vb2 hn'
                  cases hv1 : binVal op t va1 vb1 <;> cases hv2 : binVal op t va2 vb2 <;> simp_all
              cases hv1 : binVal op t va1 vb1 with
              | none =>
                cases hv2 : binVal op t va2 vb2 with
                | none => rfl
                | some r2 => rw [hv1, hv2] at hnone; simp at hnone
              | some r1 =>
                cases hv2 : binVal op t va2 vb2 with
                | none => rw [hv1, hv2] at hnone; simp at hnone
                | some r2 =>
                  refine ⟨rfl, fun hp => ?_⟩
                  obtain ⟨hpa, hpb⟩ := join_pub hp
                  have e1' : va1 = va2 := iha.2 hpa
                  have e2' : vb1 = vb2 := ihb.2 hpb
                  subst e1'; subst e2'
                  rw [hv1] at hv2; exact Option.some.inj hv2
  | un op t a iha =>
    simp only [evalE]
    cases ha1 : evalE e1 a with
    | error k1 => cases ha2 : evalE e2 a with
      | error k2 => rw [ha1, ha2] at iha; exact iha
      | ok v2 => rw [ha1, ha2] at iha; exact iha.elim
    | ok v1 => cases ha2 : evalE e2 a with
      | error k2 => rw [ha1, ha2] at iha; exact iha.elim
      | ok v2 =>
        rw [ha1, ha2] at iha
        obtain ⟨va1, la1⟩ := v1; obtain ⟨va2, la2⟩ := v2
        exact ⟨iha.1, fun hp => by have := iha.2 hp; simp only at this; subst this; rfl⟩
  | cast to fr a iha =>
    simp only [evalE]
    cases ha1 : evalE e1 a with
    | error k1 => cases ha2 : evalE e2 a with
      | error k2 => rw [ha1, ha2] at iha; exact iha
      | ok v2 => rw [ha1, ha2] at iha; exact iha.elim
    | ok v1 => cases ha2 : evalE e2 a with
      | error k2 => rw [ha1, ha2] at iha; exact iha.elim
      | ok v2 =>
        rw [ha1, ha2] at iha
        obtain ⟨va1, la1⟩ := v1; obtain ⟨va2, la2⟩ := v2
        exact ⟨iha.1, fun hp => by have := iha.2 hp; simp only at this; subst this; rfl⟩

theorem evalArgs_rel {e1 e2 : Env} (h : EnvRel e1 e2) (xs : List Expr) :
    ERel (L2 LRel) (evalArgs e1 xs) (evalArgs e2 xs) := by
  induction xs with
  | nil => exact L2.nil
  | cons x xs ih =>
    simp only [evalArgs]
    have hx := evalE_rel h x
    cases h1 : evalE e1 x with
    | error k1 => cases h2 : evalE e2 x with
      | error k2 => rw [h1, h2] at hx; exact hx
      | ok v2 => rw [h1, h2] at hx; exact hx.elim
    | ok v1 => cases h2 : evalE e2 x with
      | error k2 => rw [h1, h2] at hx; exact hx.elim
      | ok v2 =>
        rw [h1, h2] at hx
        simp only
        cases h3 : evalArgs e1 xs with
        | error k1 => cases h4 : evalArgs e2 xs with
          | error k2 => rw [h3, h4] at ih; exact ih
          | ok w2 => rw [h3, h4] at ih; exact ih.elim
        | ok w1 => cases h4 : evalArgs e2 xs with
          | error k2 => rw [h3, h4] at ih; exact ih.elim
          | ok w2 => rw [h3, h4] at ih; exact L2.cons hx ih


/-! ### memory -/

theorem blockBytes_rel {m1 m2 : Array Block} (h : MemRel m1 m2) (b : Nat) :
    BytesRel (blockBytes m1 b) (blockBytes m2 b) := by
  unfold blockBytes
  have hb := h b
  cases h1 : m1[b]? with
  | none => cases h2 : m2[b]? with
    | none => intro i; simp [ORel]
    | some y => rw [h1, h2] at hb; exact hb.elim
  | some x => cases h2 : m2[b]? with
    | none => rw [h1, h2] at hb; exact hb.elim
    | some y => rw [h1, h2] at hb; exact hb.2

theorem resolve_rel {m1 m2 : Array Block} (h : MemRel m1 m2) (p size : Nat) :
    resolve m1 p size = resolve m2 p size := by
  simp only [resolve]
  split
  · rfl
  · have hb := h (p / ptrBase - 1)
    cases h1 : m1[p / ptrBase - 1]? with
    | none => cases h2 : m2[p / ptrBase - 1]? with
      | none => rfl
      | some y => rw [h1, h2] at hb; exact hb.elim
    | some x => cases h2 : m2[p / ptrBase - 1]? with
      | none => rw [h1, h2] at hb; exact hb.elim
      | some y =>
        rw [h1, h2] at hb
        have hbase : x.base = y.base := hb.1
        have hsize : x.bytes.size = y.bytes.size := hb.2.size_eq
        simp only [hbase, hsize]

theorem setBlock_rel {m1 m2 : Array Block} (h : MemRel m1 m2) (b : Nat) {x y : Array LByte} (hxy : BytesRel x y) :
    MemRel (setBlock m1 b x) (setBlock m2 b y) := by
  unfold setBlock
  have hb := h b
  cases h1 : m1[b]? with
  | none => cases h2 : m2[b]? with
    | none => exact h
    | some v => rw [h1, h2] at hb; exact hb.elim
  | some u => cases h2 : m2[b]? with
    | none => rw [h1, h2] at hb; exact hb.elim
    | some v =>
      rw [h1, h2] at hb
      exact ARel.set h b ⟨hb.1, hxy⟩

theorem readLE_rel {b1 b2 : Array LByte} (h : BytesRel b1 b2) (off n : Nat) :
    ORel LRel (readLE b1 off n) (readLE b2 off n) := by
  induction n generalizing off with
  | zero => exact LRel.refl _
  | succ n ih =>
    simp only [readLE]
    have ho := h off
    cases h1 : b1[off]? with
    | none => cases h2 : b2[off]? with
      | none => trivial
      | some y => rw [h1, h2] at ho; exact ho.elim
    | some x => cases h2 : b2[off]? with
      | none => rw [h1, h2] at ho; exact ho.elim
      | some y =>
        rw [h1, h2] at ho
        obtain ⟨vx, lx⟩ := x; obtain ⟨vy, ly⟩ := y
        have hl : lx = ly := ho.1
        subst hl
        simp only
        split
        · trivial
        · have ih' := ih (off + 1)
          cases h3 : readLE b1 (off + 1) n with
          | none => cases h4 : readLE b2 (off + 1) n with
            | none => trivial
            | some w => rw [h3, h4] at ih'; exact ih'.elim
          | some u => cases h4 : readLE b2 (off + 1) n with
            | none => rw [h3, h4] at ih'; exact ih'.elim
            | some w =>
              rw [h3, h4] at ih'
              obtain ⟨vu, lu⟩ := u; obtain ⟨vw, lw⟩ := w
              refine ⟨join_eq rfl ih'.1, fun hp => ?_⟩
              obtain ⟨hp1, hp2⟩ := join_pub hp
              have e1 : vx = vy := ho.2 hp1
              have e2 : vu = vw := ih'.2 hp2
              simp only at e1 e2 ⊢
              rw [e1, e2]

theorem writeLE_rel {b1 b2 : Array LByte} (h : BytesRel b1 b2) (off : Nat) {v1 v2 : Nat} {l1 l2 : Lab}
    (hv : LRel (v1, l1) (v2, l2)) (n : Nat) :
    BytesRel (writeLE b1 off v1 l1 n) (writeLE b2 off v2 l2 n) := by
  induction n generalizing b1 b2 off v1 v2 with
  | zero => exact h
  | succ n ih =>
    simp only [writeLE]
    have hl : l1 = l2 := hv.1
    subst hl
    apply ih
    · apply ARel.set h
      exact ⟨rfl, fun hp => by have := hv.2 hp; simp only at this ⊢; rw [this]⟩
    · exact ⟨rfl, fun hp => by have := hv.2 hp; simp only at this ⊢; rw [this]⟩

theorem writeBytes_rel {b1 b2 : Array LByte} (h : BytesRel b1 b2) (off : Nat) {x y : List LByte} (hxy : L2 LRel x y) :
    BytesRel (writeBytes b1 off x) (writeBytes b2 off y) := by
  induction hxy generalizing b1 b2 off with
  | nil => exact h
  | cons hab _ ih => simp only [writeBytes]; exact ih (ARel.set h off hab) (off + 1)

theorem sliceBytes_rel {b1 b2 : Array LByte} (h : BytesRel b1 b2) (off n : Nat) :
    L2 LRel (sliceBytes b1 off n) (sliceBytes b2 off n) := by
  induction n generalizing off with
  | zero => exact .nil
  | succ n ih =>
    simp only [sliceBytes]
    have ho := h off
    cases h1 : b1[off]? with
    | none => cases h2 : b2[off]? with
      | none => exact .nil
      | some y => rw [h1, h2] at ho; exact ho.elim
    | some x => cases h2 : b2[off]? with
      | none => rw [h1, h2] at ho; exact ho.elim
      | some y => rw [h1, h2] at ho; exact .cons ho (ih (off + 1))

theorem allocLocals_rel (al : List (Nat × Nat)) {e1 e2 : Env} {m1 m2 : Array Block} (he : EnvRel e1 e2) (hm : MemRel m1 m2) :
    EnvRel (allocLocals al e1 m1).1 (allocLocals al e2 m2).1 ∧ MemRel (allocLocals al e1 m1).2 (allocLocals al e2 m2).2 := by
  induction al generalizing e1 e2 m1 m2 with
  | nil => exact ⟨he, hm⟩
  | cons a rest ih =>
    obtain ⟨x, size⟩ := a
    simp only [allocLocals]
    apply ih
    · rw [hm.size_eq]; exact ARel.set he x (LRel.refl _)
    · exact ARel.push hm ⟨rfl, ARel.replicate size (LRel.refl _)⟩

theorem assignDst_rel (dst : Option Nat) {e1 e2 : Env} (he : EnvRel e1 e2) {v1 v2 : Option LVal} (hv : ORel LRel v1 v2) :
    ERel EnvRel (assignDst dst e1 v1) (assignDst dst e2 v2) := by
  unfold assignDst
  cases dst with
  | none => exact he
  | some x =>
    cases v1 with
    | none => cases v2 with
      | none => rfl
      | some b => exact hv.elim
    | some a => cases v2 with
      | none => exact hv.elim
      | some b => exact ARel.set he x hv

theorem secBytes_rel {x y : List UInt8} (h : x.length = y.length) :
    L2 LRel (x.map fun b => (b, Lab.sec)) (y.map fun b => (b, Lab.sec)) := by
  induction x generalizing y with
  | nil => cases y with
    | nil => exact .nil
    | cons _ _ => simp at h
  | cons a x ih => cases y with
    | nil => simp at h
    | cons b y => exact .cons ⟨rfl, fun hp => by simp at hp⟩ (ih (by simpa using h))

theorem deliver_rel {s1 s2 : St} (h : StRel s1 s2) (buf size : Nat) :
    ERel (fun r1 r2 => LRel r1.1 r2.1 ∧ StRel r1.2 r2.2) (deliver s1 buf size) (deliver s2 buf size) := by
  unfold deliver
  have hent := h.ent
  have hd : DelRel (s1.ent.headD ([], 0)) (s2.ent.headD ([], 0)) := by
    generalize s1.ent = l1 at hent; generalize s2.ent = l2 at hent
    cases hent with
    | nil => exact ⟨rfl, rfl⟩
    | cons hab _ => exact hab
  have ht : L2 DelRel s1.ent.tail s2.ent.tail := by
    generalize s1.ent = l1 at hent; generalize s2.ent = l2 at hent
    cases hent with
    | nil => exact .nil
    | cons _ hr => exact hr
  obtain ⟨hret, hlen⟩ := hd
  simp only [hlen, hret, h.leak]
  split
  · exact ⟨LRel.refl _, ⟨h.mem, ht, by simp [h.leak]⟩⟩
  · rw [resolve_rel h.mem]
    cases hr : resolve s2.mem buf 1 with
    | error k => rfl
    | ok bo =>
      obtain ⟨b, off⟩ := bo
      simp only
      rw [(blockBytes_rel h.mem b).size_eq]
      split
      · rfl
      · refine ⟨LRel.refl _, ⟨?_, ht, by simp [h.leak]⟩⟩
        apply setBlock_rel h.mem
        apply writeBytes_rel (blockBytes_rel h.mem b)
        apply secBytes_rel
        simp only [List.length_take, hlen]

/-! ### statements -/

theorem ERel.cases {α} {R : α → α → Prop} {x y : Except Fault α} (h : ERel R x y) :
    (∃ k, x = .error k ∧ y = .error k) ∨ (∃ a b, x = .ok a ∧ y = .ok b ∧ R a b) := by
  cases x with
  | error k1 => cases y with
    | error k2 => exact .inl ⟨k1, rfl, by rw [show k1 = k2 from h]⟩
    | ok b => exact h.elim
  | ok a => cases y with
    | error k2 => exact h.elim
    | ok b => exact .inr ⟨a, b, rfl, rfl, h⟩

theorem ORel.cases {α} {R : α → α → Prop} {x y : Option α} (h : ORel R x y) :
    (x = none ∧ y = none) ∨ (∃ a b, x = some a ∧ y = some b ∧ R a b) := by
  cases x with
  | none => cases y with
    | none => exact .inl ⟨rfl, rfl⟩
    | some b => exact h.elim
  | some a => cases y with
    | none => exact h.elim
    | some b => exact .inr ⟨a, b, rfl, rfl, h⟩

theorem enterFun_rel (fd : FunDecl) {v1 v2 : List LVal} (hv : L2 LRel v1 v2) {m1 m2 : Array Block} (hm : MemRel m1 m2) :
    EnvRel (enterFun fd v1 m1).1 (enterFun fd v2 m2).1 ∧ MemRel (enterFun fd v1 m1).2 (enterFun fd v2 m2).2 := by
  unfold enterFun
  exact allocLocals_rel _ (L2.toArray (L2.append hv (L2.replicate _ (LRel.refl _)))) hm

theorem leaveFun_rel (dst : Option Nat) {e1 e2 : Env} (he : EnvRel e1 e2) (n : Nat) {r1 r2 : Out} (hr : OutRel r1 r2) :
    OutRel (leaveFun dst e1 n r1) (leaveFun dst e2 n r2) := by
  cases r1 with
  | timeout => cases r2 <;> first | exact hr | exact hr.elim
  | fault k1 l1 => cases r2 <;> first | exact hr | exact hr.elim
  | ok g1 x1 t1 =>
    cases r2 with
    | timeout => exact hr.elim
    | fault _ _ => exact hr.elim
    | ok g2 x2 t2 =>
      obtain ⟨hg, _, ht⟩ := hr
      simp only [leaveFun]
      have hrv : ORel LRel g1.retVal g2.retVal := by
        cases g1 <;> cases g2 <;> first | exact hg | exact hg.elim | trivial
      rcases (assignDst_rel dst he hrv).cases with ⟨k, h1, h2⟩ | ⟨a, b, h1, h2, hab⟩
      · rw [h1, h2]; exact ⟨rfl, ht.leak⟩
      · rw [h1, h2]; exact ⟨trivial, hab, ⟨ARel.extract0 ht.mem n, ht.ent, ht.leak⟩⟩

theorem lab_ne_pub_eq {a b : LVal} (h : LRel a b) : (a.2 ≠ Lab.pub) = (b.2 ≠ Lab.pub) := by rw [h.1]

/-- **Non-interference of statement execution.** -/
theorem exec_rel (prog : Program) (fuel : Nat) : ∀ (s : Stmt) (e1 e2 : Env) (s1 s2 : St),
    EnvRel e1 e2 → StRel s1 s2 → OutRel (exec prog fuel s e1 s1) (exec prog fuel s e2 s2) := by
  induction fuel with
  | zero => intro s e1 e2 s1 s2 _ _; simp only [exec]; trivial
  | succ n ih =>
    intro s e1 e2 s1 s2 he hs
    cases s with
    | skip => simp only [exec]; exact ⟨trivial, he, hs⟩
    | brk => simp only [exec]; exact ⟨trivial, he, hs⟩
    | assign x e =>
      simp only [exec]
      rcases (evalE_rel he e).cases with ⟨k, h1, h2⟩ | ⟨a, b, h1, h2, hab⟩
      · rw [h1, h2]; exact ⟨rfl, hs.leak⟩
      · rw [h1, h2]; exact ⟨trivial, ARel.set he x hab, hs⟩
    | ret e =>
      cases e with
      | none => simp only [exec]; exact ⟨trivial, he, hs⟩
      | some e =>
        simp only [exec]
        rcases (evalE_rel he e).cases with ⟨k, h1, h2⟩ | ⟨a, b, h1, h2, hab⟩
        · rw [h1, h2]; exact ⟨rfl, hs.leak⟩
        · rw [h1, h2]; exact ⟨hab, he, hs⟩
    | seq a b =>
      simp only [exec]
      have ha := ih a e1 e2 s1 s2 he hs
      cases hr1 : exec prog n a e1 s1 with
      | timeout => cases hr2 : exec prog n a e2 s2 <;> rw [hr1, hr2] at ha <;> first | exact ha | exact ha.elim
      | fault k1 l1 => cases hr2 : exec prog n a e2 s2 <;> rw [hr1, hr2] at ha <;> first | exact ha | exact ha.elim
      | ok g1 x1 t1 =>
        cases hr2 : exec prog n a e2 s2 with
        | timeout => rw [hr1, hr2] at ha; exact ha.elim
        | fault _ _ => rw [hr1, hr2] at ha; exact ha.elim
        | ok g2 x2 t2 =>
          rw [hr1, hr2] at ha
          obtain ⟨hg, hx, ht⟩ := ha
          cases g1 <;> cases g2 <;> first | exact hg.elim | exact ih b _ _ _ _ hx ht | exact ⟨hg, hx, ht⟩
    | loop body =>
      simp only [exec]
      have ha := ih body e1 e2 s1 s2 he hs
      cases hr1 : exec prog n body e1 s1 with
      | timeout => cases hr2 : exec prog n body e2 s2 <;> rw [hr1, hr2] at ha <;> first | exact ha | exact ha.elim
      | fault k1 l1 => cases hr2 : exec prog n body e2 s2 <;> rw [hr1, hr2] at ha <;> first | exact ha | exact ha.elim
      | ok g1 x1 t1 =>
        cases hr2 : exec prog n body e2 s2 with
        | timeout => rw [hr1, hr2] at ha; exact ha.elim
        | fault _ _ => rw [hr1, hr2] at ha; exact ha.elim
        | ok g2 x2 t2 =>
          rw [hr1, hr2] at ha
          obtain ⟨hg, hx, ht⟩ := ha
          cases g1 <;> cases g2 <;>
            first | exact hg.elim | exact ih (.loop body) _ _ _ _ hx ht | exact ⟨trivial, hx, ht⟩ | exact ⟨hg, hx, ht⟩
    | ite c a b =>
      simp only [exec]
      rcases (evalE_rel he c).cases with ⟨k, h1, h2⟩ | ⟨⟨v1, l1⟩, ⟨v2, l2⟩, h1, h2, hab⟩
      · rw [h1, h2]; exact ⟨rfl, hs.leak⟩
      · rw [h1, h2]
        have hl : l1 = l2 := hab.1
        subst hl
        simp only
        by_cases hp : l1 = Lab.pub
        · have hv : v1 = v2 := hab.2 hp
          subst hv
          simp only [hp, ne_eq, not_true_eq_false, if_false]
          have hs' : StRel { s1 with leak := Ev.br (v1 != 0) :: s1.leak } { s2 with leak := Ev.br (v1 != 0) :: s2.leak } :=
            ⟨hs.mem, hs.ent, by simp [hs.leak]⟩
          split
          · exact ih a _ _ _ _ he hs'
          · exact ih b _ _ _ _ he hs'
        · simp only [ne_eq, hp, not_false_eq_true, if_true]; exact ⟨rfl, hs.leak⟩
    | load x t addr =>
      simp only [exec]
      rcases (evalE_rel he addr).cases with ⟨k, h1, h2⟩ | ⟨⟨p1, l1⟩, ⟨p2, l2⟩, h1, h2, hab⟩
      · rw [h1, h2]; exact ⟨rfl, hs.leak⟩
      · rw [h1, h2]
        have hl : l1 = l2 := hab.1
        subst hl
        simp only
        by_cases hp : l1 = Lab.pub
        · have hv : p1 = p2 := hab.2 hp
          subst hv
          simp only [hp, ne_eq, not_true_eq_false, if_false]
          rw [resolve_rel hs.mem, hs.leak]
          cases hr : resolve s2.mem p1 t.bytes with
          | error k => exact ⟨rfl, rfl⟩
          | ok bo =>
            obtain ⟨b, off⟩ := bo
            simp only
            rcases (readLE_rel (blockBytes_rel hs.mem b) off t.bytes).cases with ⟨h3, h4⟩ | ⟨a, c, h3, h4, hac⟩
            · rw [h3, h4]; exact ⟨rfl, rfl⟩
            · rw [h3, h4]; exact ⟨trivial, ARel.set he x hac, ⟨hs.mem, hs.ent, rfl⟩⟩
        · simp only [ne_eq, hp, not_false_eq_true, if_true]; exact ⟨rfl, hs.leak⟩
    | store t addr e =>
      simp only [exec]
      rcases (evalE_rel he addr).cases with ⟨k, h1, h2⟩ | ⟨⟨p1, l1⟩, ⟨p2, l2⟩, h1, h2, hab⟩
      · rw [h1, h2]; exact ⟨rfl, hs.leak⟩
      · rw [h1, h2]
        have hl : l1 = l2 := hab.1
        subst hl
        simp only
        by_cases hp : l1 = Lab.pub
        · have hv : p1 = p2 := hab.2 hp
          subst hv
          simp only [hp, ne_eq, not_true_eq_false, if_false]
          rcases (evalE_rel he e).cases with ⟨k, h3, h4⟩ | ⟨⟨w1, m1⟩, ⟨w2, m2⟩, h3, h4, hw⟩
          · rw [h3, h4]; exact ⟨rfl, hs.leak⟩
          · rw [h3, h4]
            simp only
            rw [resolve_rel hs.mem, hs.leak]
            cases hr : resolve s2.mem p1 t.bytes with
            | error k => exact ⟨rfl, rfl⟩
            | ok bo =>
              obtain ⟨b, off⟩ := bo
              simp only
              exact ⟨trivial, he, ⟨setBlock_rel hs.mem b (writeLE_rel (blockBytes_rel hs.mem b) off hw t.bytes), hs.ent, rfl⟩⟩
        · simp only [ne_eq, hp, not_false_eq_true, if_true]; exact ⟨rfl, hs.leak⟩
    | call dst f args =>
      simp only [exec]
      rcases (evalArgs_rel he args).cases with ⟨k, h1, h2⟩ | ⟨v1, v2, h1, h2, hv⟩
      · rw [h1, h2]; exact ⟨rfl, hs.leak⟩
      · rw [h1, h2]
        simp only
        cases prog[f]? with
        | none => exact ⟨rfl, hs.leak⟩
        | some fd =>
          simp only [hv.length_eq]
          split
          · exact ⟨rfl, hs.leak⟩
          · rw [hs.mem.size_eq]
            apply leaveFun_rel dst he
            have hen := enterFun_rel fd hv hs.mem
            exact ih fd.body _ _ _ _ hen.1 ⟨hen.2, hs.ent, hs.leak⟩
    | calli dst fp args =>
      simp only [exec]
      rcases (evalE_rel he fp).cases with ⟨k, h1, h2⟩ | ⟨⟨f1, l1⟩, ⟨f2, l2⟩, h1, h2, hab⟩
      · rw [h1, h2]; exact ⟨rfl, hs.leak⟩
      · rw [h1, h2]
        have hl : l1 = l2 := hab.1
        subst hl
        simp only
        by_cases hp : l1 = Lab.pub
        · have hv : f1 = f2 := hab.2 hp
          subst hv
          simp only [hp, ne_eq, not_true_eq_false, if_false]
          rcases (evalArgs_rel he args).cases with ⟨k, h3, h4⟩ | ⟨v1, v2, h3, h4, hv⟩
          · rw [h3, h4]; exact ⟨rfl, hs.leak⟩
          · rw [h3, h4]
            simp only
            have hs0 : StRel { s1 with leak := Ev.icall f1 :: s1.leak } { s2 with leak := Ev.icall f1 :: s2.leak } :=
              ⟨hs.mem, hs.ent, by simp [hs.leak]⟩
            split
            · -- the caller-supplied entropy callback
              simp only [hv.length_eq]
              split
              · exact ⟨rfl, hs0.leak⟩
              · rcases (hv.getElem? 1).cases with ⟨h5, h6⟩ | ⟨⟨buf1, lb1⟩, ⟨buf2, lb2⟩, h5, h6, hx1⟩
                · rw [h5, h6]; exact ⟨rfl, hs0.leak⟩
                · rw [h5, h6]
                  simp only
                  rcases (hv.getElem? 2).cases with ⟨h7, h8⟩ | ⟨⟨sz1, ls1⟩, ⟨sz2, ls2⟩, h7, h8, hx2⟩
                  · rw [h7, h8]; exact ⟨rfl, hs0.leak⟩
                  · rw [h7, h8]
                    have hlb : lb1 = lb2 := hx1.1
                    have hls : ls1 = ls2 := hx2.1
                    subst hlb; subst hls
                    simp only
                    by_cases hq : (lb1 ≠ Lab.pub || ls1 ≠ Lab.pub) = true
                    · simp only [hq, if_true]; exact ⟨rfl, hs0.leak⟩
                    · simp only [hq]
                      have hq1 : lb1 = Lab.pub := by
                        cases hh : lb1 <;> simp [hh] at hq ⊢
                      have hq2 : ls1 = Lab.pub := by
                        cases hh : ls1 <;> simp [hh] at hq ⊢
                      have eb : buf1 = buf2 := hx1.2 hq1
                      have es : sz1 = sz2 := hx2.2 hq2
                      subst eb; subst es
                      rcases (deliver_rel hs0 buf1 sz1).cases with ⟨k, h9, h10⟩ | ⟨⟨r1, t1⟩, ⟨r2, t2⟩, h9, h10, hr, ht⟩
                      · rw [h9, h10]; exact ⟨rfl, hs0.leak⟩
                      · rw [h9, h10]
                        simp only
                        rcases (assignDst_rel dst he (show ORel LRel (some r1) (some r2) from hr)).cases with ⟨k, h11, h12⟩ | ⟨a, b, h11, h12, hab'⟩
                        · rw [h11, h12]; exact ⟨rfl, ht.leak⟩
                        · rw [h11, h12]; exact ⟨trivial, hab', ht⟩
            · split
              · exact ⟨rfl, hs0.leak⟩
              · cases prog[f1 - fnBase]? with
                | none => exact ⟨rfl, hs0.leak⟩
                | some fd =>
                  simp only [hv.length_eq]
                  split
                  · exact ⟨rfl, hs0.leak⟩
                  · rw [hs.mem.size_eq]
                    apply leaveFun_rel dst he
                    have hen := enterFun_rel fd hv hs0.mem
                    exact ih fd.body _ _ _ _ hen.1 ⟨hen.2, hs0.ent, hs0.leak⟩
        · simp only [ne_eq, hp, not_false_eq_true, if_true]; exact ⟨rfl, hs.leak⟩
    | memcpy d sr cnt =>
      simp only [exec]
      rcases (evalE_rel he d).cases with ⟨k, h1, h2⟩ | ⟨⟨pd1, ld1⟩, ⟨pd2, ld2⟩, h1, h2, hd⟩
      · rw [h1, h2]; exact ⟨rfl, hs.leak⟩
      · rw [h1, h2]
        simp only
        rcases (evalE_rel he sr).cases with ⟨k, h3, h4⟩ | ⟨⟨ps1, ls1⟩, ⟨ps2, ls2⟩, h3, h4, hsr⟩
        · rw [h3, h4]; exact ⟨rfl, hs.leak⟩
        · rw [h3, h4]
          simp only
          rcases (evalE_rel he cnt).cases with ⟨k, h5, h6⟩ | ⟨⟨n1, ln1⟩, ⟨n2, ln2⟩, h5, h6, hn⟩
          · rw [h5, h6]; exact ⟨rfl, hs.leak⟩
          · rw [h5, h6]
            have e1' : ld1 = ld2 := hd.1
            have e2' : ls1 = ls2 := hsr.1
            have e3' : ln1 = ln2 := hn.1
            subst e1'; subst e2'; subst e3'
            simp only
            by_cases hq : (ld1 ≠ Lab.pub || ls1 ≠ Lab.pub || ln1 ≠ Lab.pub) = true
            · simp only [hq, if_true]; exact ⟨rfl, hs.leak⟩
            · simp only [hq]
              have hq1 : ld1 = Lab.pub := by cases hh : ld1 <;> simp [hh] at hq ⊢
              have hq2 : ls1 = Lab.pub := by cases hh : ls1 <;> simp [hh] at hq ⊢
              have hq3 : ln1 = Lab.pub := by cases hh : ln1 <;> simp [hh] at hq ⊢
              have ed : pd1 = pd2 := hd.2 hq1
              have es : ps1 = ps2 := hsr.2 hq2
              have en : n1 = n2 := hn.2 hq3
              subst ed; subst es; subst en
              rw [hs.leak]
              by_cases hz : n1 = 0
              · simp only [hz, if_true]; exact ⟨trivial, he, ⟨hs.mem, hs.ent, rfl⟩⟩
              · simp only [hz, if_false]
                rw [resolve_rel hs.mem ps1, resolve_rel hs.mem pd1]
                cases hr : resolve s2.mem ps1 1 with
                | error k => exact ⟨rfl, rfl⟩
                | ok bo =>
                  obtain ⟨bs, offs⟩ := bo
                  simp only
                  rw [(blockBytes_rel hs.mem bs).size_eq]
                  by_cases ho : offs + n1 > (blockBytes s2.mem bs).size
                  · simp only [ho, if_true]; exact ⟨rfl, rfl⟩
                  · simp only [ho, if_false]
                    cases hr2 : resolve s2.mem pd1 1 with
                    | error k => exact ⟨rfl, rfl⟩
                    | ok bo2 =>
                      obtain ⟨bd, offd⟩ := bo2
                      simp only
                      rw [(blockBytes_rel hs.mem bd).size_eq]
                      by_cases ho2 : offd + n1 > (blockBytes s2.mem bd).size
                      · simp only [ho2, if_true]; exact ⟨rfl, rfl⟩
                      · simp only [ho2, if_false]
                        exact ⟨trivial, he, ⟨setBlock_rel hs.mem bd
                          (writeBytes_rel (blockBytes_rel hs.mem bd) offd (sliceBytes_rel (blockBytes_rel hs.mem bs) offs n1)), hs.ent, rfl⟩⟩
    | memset d v cnt =>
      simp only [exec]
      rcases (evalE_rel he d).cases with ⟨k, h1, h2⟩ | ⟨⟨pd1, ld1⟩, ⟨pd2, ld2⟩, h1, h2, hd⟩
      · rw [h1, h2]; exact ⟨rfl, hs.leak⟩
      · rw [h1, h2]
        simp only
        rcases (evalE_rel he v).cases with ⟨k, h3, h4⟩ | ⟨⟨v1, lv1⟩, ⟨v2, lv2⟩, h3, h4, hv⟩
        · rw [h3, h4]; exact ⟨rfl, hs.leak⟩
        · rw [h3, h4]
          simp only
          rcases (evalE_rel he cnt).cases with ⟨k, h5, h6⟩ | ⟨⟨n1, ln1⟩, ⟨n2, ln2⟩, h5, h6, hn⟩
          · rw [h5, h6]; exact ⟨rfl, hs.leak⟩
          · rw [h5, h6]
            have e1' : ld1 = ld2 := hd.1
            have e2' : lv1 = lv2 := hv.1
            have e3' : ln1 = ln2 := hn.1
            subst e1'; subst e2'; subst e3'
            simp only
            by_cases hq : (ld1 ≠ Lab.pub || ln1 ≠ Lab.pub) = true
            · simp only [hq, if_true]; exact ⟨rfl, hs.leak⟩
            · simp only [hq]
              have hq1 : ld1 = Lab.pub := by cases hh : ld1 <;> simp [hh] at hq ⊢
              have hq3 : ln1 = Lab.pub := by cases hh : ln1 <;> simp [hh] at hq ⊢
              have ed : pd1 = pd2 := hd.2 hq1
              have en : n1 = n2 := hn.2 hq3
              subst ed; subst en
              rw [hs.leak]
              by_cases hz : n1 = 0
              · simp only [hz, if_true]; exact ⟨trivial, he, ⟨hs.mem, hs.ent, rfl⟩⟩
              · simp only [hz, if_false]
                rw [resolve_rel hs.mem pd1]
                cases hr2 : resolve s2.mem pd1 1 with
                | error k => exact ⟨rfl, rfl⟩
                | ok bo2 =>
                  obtain ⟨bd, offd⟩ := bo2
                  simp only
                  rw [(blockBytes_rel hs.mem bd).size_eq]
                  by_cases ho2 : offd + n1 > (blockBytes s2.mem bd).size
                  · simp only [ho2, if_true]; exact ⟨rfl, rfl⟩
                  · simp only [ho2, if_false]
                    refine ⟨trivial, he, ⟨setBlock_rel hs.mem bd (writeBytes_rel (blockBytes_rel hs.mem bd) offd ?_), hs.ent, rfl⟩⟩
                    apply L2.replicate
                    exact ⟨rfl, fun hp => by have := hv.2 hp; simp only at this ⊢; rw [this]⟩
    | entropy dst buf =>
      simp only [exec]
      rcases (evalE_rel he buf).cases with ⟨k, h1, h2⟩ | ⟨⟨p1, l1⟩, ⟨p2, l2⟩, h1, h2, hab⟩
      · rw [h1, h2]; exact ⟨rfl, hs.leak⟩
      · rw [h1, h2]
        have hl : l1 = l2 := hab.1
        subst hl
        simp only
        by_cases hp : l1 = Lab.pub
        · have hv : p1 = p2 := hab.2 hp
          subst hv
          simp only [hp, ne_eq, not_true_eq_false, if_false]
          rcases (deliver_rel hs p1 32).cases with ⟨k, h9, h10⟩ | ⟨⟨r1, t1⟩, ⟨r2, t2⟩, h9, h10, hr, ht⟩
          · rw [h9, h10]; exact ⟨rfl, hs.leak⟩
          · rw [h9, h10]
            simp only
            rcases (assignDst_rel dst he (show ORel LRel (some r1) (some r2) from hr)).cases with ⟨k, h11, h12⟩ | ⟨a, b, h11, h12, hab'⟩
            · rw [h11, h12]; exact ⟨rfl, ht.leak⟩
            · rw [h11, h12]; exact ⟨trivial, hab', ht⟩
        · simp only [ne_eq, hp, not_false_eq_true, if_true]; exact ⟨rfl, hs.leak⟩

end TJ.MiniC
