/-
  TJ.MiniC.Sem — executable semantics of the C subset, instrumented three ways:

  * secrecy labels: every value and every memory byte carries `pub`, `sec` or `undef`; labels
    propagate through operations (dynamic monitor).  Branching on, shifting by, dividing,
    addressing with, or passing as a length a `sec` value is the fault `taint`;
  * leakage trace: every branch outcome, every address read or written with its size, every
    memcpy/memset triple, every indirect call target is appended to `St.leak`;
  * undefined behaviour the library must not execute is a fault: access outside its block,
    misaligned word access (relative to the block's declared base misalignment), read of an
    uninitialised byte or local, shift by at least the width, division by zero, null dereference.
    Signed overflow wraps (not a fault here; UBSan covers it on the compiled code).

  `exec` is structurally recursive in its fuel (which bounds nesting depth + loop iterations +
  call depth), so it runs compiled in the driver and unfolds by `simp`/`decide` in proofs.
-/
import TJ.MiniC.Syntax
namespace TJ.MiniC

inductive Lab | pub | sec | undef
  deriving DecidableEq, Repr, Inhabited

def Lab.join : Lab → Lab → Lab
  | .pub, .pub => .pub
  | _, _ => .sec

abbrev LVal := Nat × Lab
abbrev LByte := UInt8 × Lab

inductive Fault
  | taint | oob | misaligned | uninit | shift | divzero | badptr | badcall | noreturn | unsupported
  deriving DecidableEq, Repr, Inhabited

inductive Ev
  | br (b : Bool)
  | rd (p size : Nat)
  | wr (p size : Nat)
  | cp (d s n : Nat)
  | set (d n : Nat)
  | icall (f : Nat)
  | ent (p n : Nat)
  deriving DecidableEq, Repr, Inhabited

structure Block where
  bytes : Array LByte
  /-- offset of byte 0 inside the block's address range: a pointer to byte `i` is
      `(block+1)·2^32 + base + i`, so the low bits of a pointer value are the real alignment the
      caller gave the buffer (the address range itself is 2^32-aligned) -/
  base : Nat
  deriving Repr, Inhabited

/-- one scripted delivery of the entropy source: bytes it writes, value it returns -/
abbrev Delivery := List UInt8 × Nat

structure St where
  mem : Array Block
  ent : List Delivery
  /-- leakage trace, most recent event first -/
  leak : List Ev
  deriving Repr, Inhabited

abbrev Env := Array LVal

/-! ### integer arithmetic -/

def toInt (t : Ty) (n : Nat) : Int :=
  if t.signed && n ≥ t.half then (n : Int) - (t.modulus : Nat) else (n : Int)

def ofInt (t : Ty) (i : Int) : Nat := (i % ((t.modulus : Nat) : Int)).toNat

def castVal (to from_ : Ty) (n : Nat) : Nat :=
  if from_.signed then ofInt to (toInt from_ n) else n % to.modulus

def b2n (b : Bool) : Nat := if b then 1 else 0

/-- result of a binary operation on normalised operands; `none` for a shift ≥ width or division by 0
    (both decided by the second operand only) -/
def binVal (op : BinOp) (t : Ty) (a b : Nat) : Option Nat :=
  match op with
  | .add => some ((a + b) % t.modulus)
  | .sub => some ((a + t.modulus - b % t.modulus) % t.modulus)
  | .mul => some ((a * b) % t.modulus)
  | .div => if b = 0 then none else some (a / b)
  | .rem => if b = 0 then none else some (a % b)
  | .band => some (a &&& b)
  | .bor => some (a ||| b)
  | .bxor => some (a ^^^ b)
  | .shl => if b ≥ t.bits then none else some ((a <<< b) % t.modulus)
  | .shr => if b ≥ t.bits then none else
      if t.signed then some (ofInt t (toInt t a >>> b)) else some (a >>> b)
  | .eq => some (b2n (a = b))
  | .ne => some (b2n (a ≠ b))
  | .lt => some (b2n (if t.signed then toInt t a < toInt t b else a < b))
  | .le => some (b2n (if t.signed then toInt t a ≤ toInt t b else a ≤ b))
  | .gt => some (b2n (if t.signed then toInt t a > toInt t b else a > b))
  | .ge => some (b2n (if t.signed then toInt t a ≥ toInt t b else a ≥ b))

def unVal (op : UnOp) (t : Ty) (a : Nat) : Nat :=
  match op with
  | .bnot => t.modulus - 1 - a % t.modulus
  | .neg => (t.modulus - a % t.modulus) % t.modulus
  | .lnot => b2n (a = 0)

/-- operations whose second operand must be public (and for division the first as well) -/
def BinOp.needsPub2 : BinOp → Bool
  | .shl | .shr | .div | .rem => true
  | _ => false
def BinOp.needsPub1 : BinOp → Bool
  | .div | .rem => true
  | _ => false

def evalE (env : Env) : Expr → Except Fault LVal
  | .lit n => .ok (n, .pub)
  | .var x =>
    match env[x]? with
    | none => .error .unsupported
    | some (v, l) => if l = .undef then .error .uninit else .ok (v, l)
  | .bin op t a b =>
    match evalE env a with
    | .error k => .error k
    | .ok (va, la) =>
      match evalE env b with
      | .error k => .error k
      | .ok (vb, lb) =>
        if (op.needsPub2 && lb ≠ .pub) || (op.needsPub1 && la ≠ .pub) then .error .taint else
        match binVal op t va vb with
        | none => .error (if op = .div || op = .rem then .divzero else .shift)
        | some v => .ok (v, la.join lb)
  | .un op t a =>
    match evalE env a with
    | .error k => .error k
    | .ok (va, la) => .ok (unVal op t va, la)
  | .cast to from_ a =>
    match evalE env a with
    | .error k => .error k
    | .ok (va, la) => .ok (castVal to from_ va, la)

def evalArgs (env : Env) : List Expr → Except Fault (List LVal)
  | [] => .ok []
  | e :: es =>
    match evalE env e with
    | .error k => .error k
    | .ok v =>
      match evalArgs env es with
      | .error k => .error k
      | .ok vs => .ok (v :: vs)

/-! ### memory -/

def ptrBase : Nat := 2 ^ 32
def mkPtr (b off : Nat) : Nat := (b + 1) * ptrBase + off
/-- function `i` of the program as a pointer value -/
def fnBase : Nat := 2 ^ 63
/-- the caller-supplied entropy callback (outside the program) -/
def userCb : Nat := 2 ^ 63 + 2 ^ 62

/-- resolve an access of `size` bytes at pointer `p`: block index and index of the first byte -/
def resolve (mem : Array Block) (p size : Nat) : Except Fault (Nat × Nat) :=
  if p / ptrBase = 0 then .error .badptr else
  let b := p / ptrBase - 1
  let off := p % ptrBase
  match mem[b]? with
  | none => .error .badptr
  | some blk =>
    if off < blk.base ∨ off - blk.base + size > blk.bytes.size then .error .oob else
    if size > 1 ∧ off % size ≠ 0 then .error .misaligned else .ok (b, off - blk.base)

/-- little-endian read of `n` bytes at `off`; `none` when a byte is missing or undefined -/
def readLE (bs : Array LByte) (off : Nat) : Nat → Option LVal
  | 0 => some (0, .pub)
  | n + 1 =>
    match bs[off]? with
    | none => none
    | some (b, l) =>
      if l = .undef then none else
      match readLE bs (off + 1) n with
      | none => none
      | some (v, l') => some (b.toNat + 256 * v, l.join l')

def writeLE (bs : Array LByte) (off : Nat) (v : Nat) (l : Lab) : Nat → Array LByte
  | 0 => bs
  | n + 1 => writeLE (bs.setIfInBounds off ((v % 256).toUInt8, l)) (off + 1) (v / 256) l n

def setBlock (mem : Array Block) (b : Nat) (bytes : Array LByte) : Array Block :=
  match mem[b]? with
  | none => mem
  | some blk => mem.setIfInBounds b { blk with bytes := bytes }

def blockBytes (mem : Array Block) (b : Nat) : Array LByte :=
  match mem[b]? with
  | none => #[]
  | some blk => blk.bytes

/-- copy `n` labelled bytes (source already extracted) -/
def writeBytes (bs : Array LByte) (off : Nat) : List LByte → Array LByte
  | [] => bs
  | x :: xs => writeBytes (bs.setIfInBounds off x) (off + 1) xs

def sliceBytes (bs : Array LByte) (off : Nat) : Nat → List LByte
  | 0 => []
  | n + 1 =>
    match bs[off]? with
    | none => []
    | some x => x :: sliceBytes bs (off + 1) n

/-! ### statements -/

inductive Sig
  | normal | brk | ret (v : Option LVal)
  deriving Repr, Inhabited

inductive Out
  | ok (sig : Sig) (env : Env) (st : St)
  | fault (k : Fault) (leak : List Ev)
  | timeout
  deriving Repr, Inhabited

def setVar (env : Env) (x : Nat) (v : LVal) : Env := env.setIfInBounds x v

/-- allocate the memory-resident locals of a function -/
def allocLocals : List (Nat × Nat) → Env → Array Block → Env × Array Block
  | [], env, mem => (env, mem)
  | (x, size) :: rest, env, mem =>
    allocLocals rest (setVar env x (mkPtr mem.size 0, .pub))
      (mem.push { bytes := Array.replicate size (0, .undef), base := 0 })

/-- one delivery of the entropy source into `buf` (at most `size` bytes, labelled secret) -/
def deliver (st : St) (buf size : Nat) : Except Fault (LVal × St) :=
  let d : Delivery := st.ent.headD ([], 0)
  let n := min d.1.length size
  let st1 : St := { st with ent := st.ent.tail, leak := .ent buf size :: st.leak }
  if n = 0 then .ok ((d.2, .pub), st1) else
  match resolve st.mem buf 1 with
  | .error k => .error k
  | .ok (b, off) =>
    if off + n > (blockBytes st.mem b).size then .error .oob else
    let bytes := writeBytes (blockBytes st.mem b) off ((d.1.take n).map fun x => (x, Lab.sec))
    .ok ((d.2, .pub), { st1 with mem := setBlock st.mem b bytes })

def assignDst (dst : Option Nat) (env : Env) (v : Option LVal) : Except Fault Env :=
  match dst with
  | none => .ok env
  | some x =>
    match v with
    | none => .error .noreturn
    | some v => .ok (setVar env x v)

/-- environment and memory at function entry: arguments, undefined locals, fresh blocks -/
def enterFun (fd : FunDecl) (vs : List LVal) (mem : Array Block) : Env × Array Block :=
  allocLocals fd.allocs (vs ++ List.replicate (fd.nvars - fd.nparams) (0, Lab.undef)).toArray mem

def Sig.retVal : Sig → Option LVal
  | .ret v => v
  | _ => none

/-- back in the caller: the callee's blocks are released, the result (if any) is assigned -/
def leaveFun (dst : Option Nat) (env : Env) (size0 : Nat) : Out → Out
  | .ok sig _ st2 =>
    let st3 := { st2 with mem := st2.mem.extract 0 size0 }
    match assignDst dst env sig.retVal with
    | .error k => .fault k st3.leak
    | .ok env' => .ok .normal env' st3
  | r => r

def exec (prog : Program) : Nat → Stmt → Env → St → Out
  | 0, _, _, _ => .timeout
  | fuel + 1, s, env, st =>
    match s with
    | .skip => .ok .normal env st
    | .assign x e =>
      match evalE env e with
      | .error k => .fault k st.leak
      | .ok v => .ok .normal (setVar env x v) st
    | .load x t addr =>
      match evalE env addr with
      | .error k => .fault k st.leak
      | .ok (p, lp) =>
        if lp ≠ .pub then .fault .taint st.leak else
        let leak := .rd p t.bytes :: st.leak
        match resolve st.mem p t.bytes with
        | .error k => .fault k leak
        | .ok (b, off) =>
          match readLE (blockBytes st.mem b) off t.bytes with
          | none => .fault .uninit leak
          | some v => .ok .normal (setVar env x v) { st with leak := leak }
    | .store t addr e =>
      match evalE env addr with
      | .error k => .fault k st.leak
      | .ok (p, lp) =>
        if lp ≠ .pub then .fault .taint st.leak else
        match evalE env e with
        | .error k => .fault k st.leak
        | .ok (v, lv) =>
          let leak := .wr p t.bytes :: st.leak
          match resolve st.mem p t.bytes with
          | .error k => .fault k leak
          | .ok (b, off) =>
            .ok .normal env { st with leak := leak,
                                       mem := setBlock st.mem b (writeLE (blockBytes st.mem b) off v lv t.bytes) }
    | .seq a b =>
      match exec prog fuel a env st with
      | .ok .normal env1 st1 => exec prog fuel b env1 st1
      | r => r
    | .ite c a b =>
      match evalE env c with
      | .error k => .fault k st.leak
      | .ok (v, l) =>
        if l ≠ .pub then .fault .taint st.leak else
        let st1 := { st with leak := .br (v != 0) :: st.leak }
        if v != 0 then exec prog fuel a env st1 else exec prog fuel b env st1
    | .loop body =>
      match exec prog fuel body env st with
      | .ok .normal env1 st1 => exec prog fuel (.loop body) env1 st1
      | .ok .brk env1 st1 => .ok .normal env1 st1
      | r => r
    | .brk => .ok .brk env st
    | .ret none => .ok (.ret none) env st
    | .ret (some e) =>
      match evalE env e with
      | .error k => .fault k st.leak
      | .ok v => .ok (.ret (some v)) env st
    | .call dst f args =>
      match evalArgs env args with
      | .error k => .fault k st.leak
      | .ok vs =>
        match prog[f]? with
        | none => .fault .badcall st.leak
        | some fd =>
          if vs.length ≠ fd.nparams then .fault .badcall st.leak else
          leaveFun dst env st.mem.size
            (exec prog fuel fd.body (enterFun fd vs st.mem).1 { st with mem := (enterFun fd vs st.mem).2 })
    | .calli dst fp args =>
      match evalE env fp with
      | .error k => .fault k st.leak
      | .ok (f, lf) =>
        if lf ≠ .pub then .fault .taint st.leak else
        match evalArgs env args with
        | .error k => .fault k st.leak
        | .ok vs =>
          let st0 := { st with leak := .icall f :: st.leak }
          if f = userCb then
            if vs.length ≠ 3 then .fault .badcall st0.leak else
            match vs[1]? with
            | none => .fault .badcall st0.leak
            | some (buf, lb) =>
              match vs[2]? with
              | none => .fault .badcall st0.leak
              | some (size, ls) =>
                if lb ≠ .pub || ls ≠ .pub then .fault .taint st0.leak else
                match deliver st0 buf size with
                | .error k => .fault k st0.leak
                | .ok (v, st1) =>
                  match assignDst dst env (some v) with
                  | .error k => .fault k st1.leak
                  | .ok env' => .ok .normal env' st1
          else if f < fnBase then .fault .badcall st0.leak else
          match prog[f - fnBase]? with
          | none => .fault .badcall st0.leak
          | some fd =>
            if vs.length ≠ fd.nparams then .fault .badcall st0.leak else
            leaveFun dst env st0.mem.size
              (exec prog fuel fd.body (enterFun fd vs st0.mem).1 { st0 with mem := (enterFun fd vs st0.mem).2 })
    | .memcpy d s n =>
      match evalE env d with
      | .error k => .fault k st.leak
      | .ok (pd, ld) =>
        match evalE env s with
        | .error k => .fault k st.leak
        | .ok (ps, ls) =>
          match evalE env n with
          | .error k => .fault k st.leak
          | .ok (vn, ln) =>
            if ld ≠ .pub || ls ≠ .pub || ln ≠ .pub then .fault .taint st.leak else
            let leak := .cp pd ps vn :: st.leak
            if vn = 0 then .ok .normal env { st with leak := leak } else
            match resolve st.mem ps 1 with
            | .error k => .fault k leak
            | .ok (bs, offs) =>
              if offs + vn > (blockBytes st.mem bs).size then .fault .oob leak else
              match resolve st.mem pd 1 with
              | .error k => .fault k leak
              | .ok (bd, offd) =>
                if offd + vn > (blockBytes st.mem bd).size then .fault .oob leak else
                let src := sliceBytes (blockBytes st.mem bs) offs vn
                .ok .normal env { st with leak := leak,
                                           mem := setBlock st.mem bd (writeBytes (blockBytes st.mem bd) offd src) }
    | .memset d v n =>
      match evalE env d with
      | .error k => .fault k st.leak
      | .ok (pd, ld) =>
        match evalE env v with
        | .error k => .fault k st.leak
        | .ok (vv, lv) =>
          match evalE env n with
          | .error k => .fault k st.leak
          | .ok (vn, ln) =>
            if ld ≠ .pub || ln ≠ .pub then .fault .taint st.leak else
            let leak := .set pd vn :: st.leak
            if vn = 0 then .ok .normal env { st with leak := leak } else
            match resolve st.mem pd 1 with
            | .error k => .fault k leak
            | .ok (bd, offd) =>
              if offd + vn > (blockBytes st.mem bd).size then .fault .oob leak else
              .ok .normal env { st with leak := leak,
                                         mem := setBlock st.mem bd
                                           (writeBytes (blockBytes st.mem bd) offd (List.replicate vn ((vv % 256).toUInt8, lv))) }
    | .entropy dst buf =>
      match evalE env buf with
      | .error k => .fault k st.leak
      | .ok (p, lp) =>
        if lp ≠ .pub then .fault .taint st.leak else
        match deliver st p 32 with
        | .error k => .fault k st.leak
        | .ok (v, st1) =>
          match assignDst dst env (some v) with
          | .error k => .fault k st1.leak
          | .ok env' => .ok .normal env' st1

/-- call function `f` of the program with the given argument values -/
def callFun (prog : Program) (fuel : Nat) (f : Nat) (hasRet : Bool) (args : List LVal) (st : St) : Out :=
  exec prog fuel (.call (if hasRet then some 0 else none) f ((List.range args.length).map fun i => .var (i + 1)))
    ((0, .pub) :: args).toArray st

end TJ.MiniC
